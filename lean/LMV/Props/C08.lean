/-
  C08 — 8-bit discretised scores never under-estimate the real score.

  Exact instance (`ERat` = rationals with `−∞`): for every scoring matrix whose non-wildcard entries
  are finite (the wildcard column may be `−∞` or finite), with `factor > 0`, and every window of
  symbols, the SATURATING sum of the discretised cells is at least `scale (Σ xⱼ)`; `scale` is
  monotone; hence no position meeting a threshold is lost by the 8-bit pre-filter.  The statement
  is false for a wrapping or overflow-checked accumulation (counterexamples below), true for them
  whenever the cells of the window add up to at most 255.
-/
import LMV.Lemmas.Discretise
import LMV.Lemmas.U8Kernels
import LMV.Lemmas.Stripe
import LMV.Props.C04

namespace LMV
namespace C08

open Disc ScanScalar Striped

variable {K : Nat}

/-- the non-wildcard entries of the matrix are finite: `x i a` is entry `(i, a)` -/
def FiniteEntries (p : Mat ERat K) (x : ℕ → ℕ → ℚ) : Prop :=
  ∀ i a, i < p.rows → a < K - 1 → p.get i a = .fin (x i a)

/-- the fold of `rowMin` over rationals -/
def qMin (x : ℕ → ℕ → ℚ) (i n : ℕ) : ℚ :=
  (List.range n).foldl (fun m a => if x i (a + 1) < m then x i (a + 1) else m) (x i 0)

/-- the fold of `rowMax` over rationals -/
def qMax (x : ℕ → ℕ → ℚ) (i n : ℕ) : ℚ :=
  (List.range n).foldl (fun m a => if x i (a + 1) < m then m else x i (a + 1)) (x i 0)

theorem rowMin_eq {p : Mat ERat K} {x : ℕ → ℕ → ℚ} (h : FiniteEntries p x) (hK : 2 ≤ K)
    (i : ℕ) (hi : i < p.rows) : rowMin p i = .fin (qMin x i (K - 2)) := by
  have key : ∀ n, n + 1 ≤ K - 1 →
      (List.range n).foldl (fun m a => let y := p.get i (a + 1); if ScanScalar.lt y m then y else m)
        (p.get i 0) = .fin (qMin x i n) := by
    intro n
    induction n with
    | zero => intro _; simp [qMin, h i 0 hi (by omega)]
    | succ n ih =>
      intro hn
      rw [foldl_range_succ, ih (by omega)]
      unfold qMin
      rw [foldl_range_succ]
      simp only [h i (n + 1) hi (by omega), lt_def, lt_fin]
      by_cases hlt : x i (n + 1) < (List.range n).foldl
          (fun m a => if x i (a + 1) < m then x i (a + 1) else m) (x i 0)
      · simp [hlt]
      · simp [hlt]
  exact key (K - 2) (by omega)

theorem rowMax_eq {p : Mat ERat K} {x : ℕ → ℕ → ℚ} (h : FiniteEntries p x) (hK : 2 ≤ K)
    (i : ℕ) (hi : i < p.rows) : rowMax p i = .fin (qMax x i (K - 2)) := by
  have key : ∀ n, n + 1 ≤ K - 1 →
      (List.range n).foldl (fun m a => let y := p.get i (a + 1); if ScanScalar.lt y m then m else y)
        (p.get i 0) = .fin (qMax x i n) := by
    intro n
    induction n with
    | zero => intro _; simp [qMax, h i 0 hi (by omega)]
    | succ n ih =>
      intro hn
      rw [foldl_range_succ, ih (by omega)]
      unfold qMax
      rw [foldl_range_succ]
      simp only [h i (n + 1) hi (by omega), lt_def, lt_fin]
      by_cases hlt : x i (n + 1) < (List.range n).foldl
          (fun m a => if x i (a + 1) < m then m else x i (a + 1)) (x i 0)
      · simp [hlt]
      · simp [hlt]
  exact key (K - 2) (by omega)

theorem sumList_fin (qs : List ℚ) : sumList (qs.map ERat.fin) = .fin qs.sum := by
  show (qs.map ERat.fin).foldl ERat.add (.fin 0) = _
  rw [foldl_add_fin]; simp

/-- `offset`: the sum of the row minima -/
def offQ (K : ℕ) (x : ℕ → ℕ → ℚ) (M : ℕ) : ℚ := ((List.range M).map fun i => qMin x i (K - 2)).sum

/-- `factor = (max_score − offset) / 255` -/
def facQ (K : ℕ) (x : ℕ → ℕ → ℚ) (M : ℕ) : ℚ :=
  (((List.range M).map fun i => qMax x i (K - 2)).sum - offQ K x M) / 255

theorem map_rowMin {p : Mat ERat K} {x : ℕ → ℕ → ℚ} (h : FiniteEntries p x) (hK : 2 ≤ K) :
    (List.range p.rows).map (rowMin p) =
      ((List.range p.rows).map fun i => qMin x i (K - 2)).map ERat.fin := by
  rw [List.map_map]
  apply List.map_congr_left
  intro i hi
  exact rowMin_eq h hK i (List.mem_range.mp hi)

theorem map_rowMax {p : Mat ERat K} {x : ℕ → ℕ → ℚ} (h : FiniteEntries p x) (hK : 2 ≤ K) :
    (List.range p.rows).map (rowMax p) =
      ((List.range p.rows).map fun i => qMax x i (K - 2)).map ERat.fin := by
  rw [List.map_map]
  apply List.map_congr_left
  intro i hi
  exact rowMax_eq h hK i (List.mem_range.mp hi)

/-- closed form of `to_discrete` on a matrix with finite non-wildcard entries: it does not panic,
    `offset = Σ minima`, `factor = (Σ maxima − offset)/255`, and cell `(i, j)` (all `K` columns,
    the wildcard included) is `⌈(entry − minimumᵢ)/factor⌉` cast to `u8` -/
theorem toDiscrete_closed {p : Mat ERat K} {x : ℕ → ℕ → ℚ} (h : FiniteEntries p x) (hK : 2 ≤ K) :
    ∃ dm, toDiscrete p = .ok dm ∧ dm.offset = .fin (offQ K x p.rows) ∧
      dm.factor = .fin (facQ K x p.rows) ∧ dm.data.rows = p.rows ∧
      ∀ i j, i < p.rows → j < K → dm.data.get i j =
        ERat.ceilU8 (ERat.div (ERat.sub (p.get i j) (.fin (qMin x i (K - 2)))) (.fin (facQ K x p.rows))) := by
  have hnan : hasNaN p = false := by
    unfold hasNaN
    simp
  have hoff : sumList ((List.range p.rows).map (rowMin p)) = .fin (offQ K x p.rows) := by
    rw [map_rowMin h hK, sumList_fin]; rfl
  have hmax : maxScore p = .fin (((List.range p.rows).map fun i => qMax x i (K - 2)).sum) := by
    unfold maxScore; rw [map_rowMax h hK, sumList_fin]
  have hfac : ScanScalar.div (ScanScalar.sub (maxScore p) (sumList ((List.range p.rows).map (rowMin p))))
      (ScanScalar.ofU8 255) = ERat.fin (facQ K x p.rows) := by
    rw [hoff, hmax]
    simp only [sub_def, sub_fin, div_def, ofU8_def, div_fin]
    unfold facQ
    congr 1
  have hok : toDiscrete p = .ok
      ⟨Mat.ofFn p.rows fun i j => ScanScalar.ceilU8 (ScanScalar.div (ScanScalar.sub (p.get i j)
          (((List.range p.rows).map (rowMin p)).getD i ScanScalar.zero))
          (ScanScalar.div (ScanScalar.sub (maxScore p) (sumList ((List.range p.rows).map (rowMin p))))
            (ScanScalar.ofU8 255))),
        ScanScalar.div (ScanScalar.sub (maxScore p) (sumList ((List.range p.rows).map (rowMin p))))
          (ScanScalar.ofU8 255),
        (List.range p.rows).map (rowMin p), sumList ((List.range p.rows).map (rowMin p))⟩ := by
    unfold toDiscrete; rw [hnan]; rfl
  refine ⟨_, hok, hoff, hfac, by simp, ?_⟩
  intro i j hi hj
  simp only [Mat.get_ofFn, hi, hj, and_self, if_true]
  rw [hfac]
  have hget : ((List.range p.rows).map (rowMin p)).getD i ScanScalar.zero = .fin (qMin x i (K - 2)) := by
    rw [List.getD_eq_getElem?_getD, List.getElem?_map, List.getElem?_range hi]
    simp [rowMin_eq h hK i hi]
  rw [hget]
  rfl

/-! ### the window inequality -/

/-- entries of a window: all finite, with these values -/
theorem scoreFn_fin (p : Mat ERat K) (sym : ℕ → ℕ) (v : ℕ → ℚ)
    (hv : ∀ j, j < p.rows → p.get j (sym j) = .fin (v j)) :
    scoreFn p sym = .fin ((List.range p.rows).map v).sum := by
  unfold scoreFn
  have : (List.range p.rows).foldl (fun s j => ScanScalar.add s (p.get j (sym j))) ScanScalar.zero
      = (((List.range p.rows).map v).map ERat.fin).foldl ERat.add (.fin 0) := by
    rw [List.map_map, List.foldl_map]
    apply List.foldl_ext
    intro s j hj
    simp [hv j (List.mem_range.mp hj)]
  rw [this, foldl_add_fin]; simp

/-- a window containing a `−∞` entry scores `−∞` -/
theorem scoreFn_bot (p : Mat ERat K) (sym : ℕ → ℕ) (j : ℕ) (hj : j < p.rows)
    (hb : p.get j (sym j) = .bot) : scoreFn p sym = .bot := by
  unfold scoreFn
  have : (List.range p.rows).foldl (fun s j => ScanScalar.add s (p.get j (sym j))) ScanScalar.zero
      = ((List.range p.rows).map fun j => p.get j (sym j)).foldl ERat.add (.fin 0) := by
    rw [List.foldl_map]; rfl
  rw [this]
  apply foldl_add_of_bot_mem
  rw [List.mem_map]
  exact ⟨j, List.mem_range.mpr hj, hb⟩

theorem sum_map_sub_div (l : List ℕ) (v m : ℕ → ℚ) (f : ℚ) :
    (l.map fun j => (v j - m j) / f).sum = ((l.map v).sum - (l.map m).sum) / f := by
  induction l with
  | nil => simp
  | cons a t ih => simp only [List.map_cons, List.sum_cons, ih]; ring

/-- value of the 8-bit accumulation: what the property compares with the image of the real score -/
def Holds (mode : AddMode) (p : Mat ERat K) (dm : Discrete ERat K) (sym : ℕ → ℕ) : Prop :=
  ∃ v, dscoreFn mode dm.data sym = .ok v ∧ dm.scale (scoreFn p sym) ≤ v

/-- the sum of the cells of a window, as a natural number -/
def cellSum (dm : Discrete ERat K) (sym : ℕ → ℕ) : ℕ :=
  ((List.range dm.data.rows).map fun j => (dm.data.get j (sym j)).toNat).sum

theorem dscoreFn_saturating (dm : Mat UInt8 K) (sym : ℕ → ℕ) :
    ∃ v, dscoreFn .saturating dm sym = .ok v ∧
      v.toNat = min 255 ((List.range dm.rows).map fun j => (dm.get j (sym j)).toNat).sum := by
  unfold dscoreFn
  rw [foldE_map (fun s c => addU8 .saturating s c) (fun j => dm.get j (sym j))]
  obtain ⟨v, hv, hn⟩ := foldE_saturating ((List.range dm.rows).map fun j => dm.get j (sym j)) 0
  refine ⟨v, hv, ?_⟩
  rw [hn, List.map_map]
  simp [Function.comp_def]

theorem dscoreFn_exact (mode : AddMode) (dm : Mat UInt8 K) (sym : ℕ → ℕ)
    (h : ((List.range dm.rows).map fun j => (dm.get j (sym j)).toNat).sum ≤ 255) :
    ∃ v, dscoreFn mode dm sym = .ok v ∧
      v.toNat = ((List.range dm.rows).map fun j => (dm.get j (sym j)).toNat).sum := by
  unfold dscoreFn
  rw [foldE_map (fun s c => addU8 mode s c) (fun j => dm.get j (sym j))]
  have h' : (0 : UInt8).toNat +
      (((List.range dm.rows).map fun j => dm.get j (sym j)).map UInt8.toNat).sum ≤ 255 := by
    rw [List.map_map]; simpa [Function.comp_def] using h
  obtain ⟨v, hv, hn⟩ := foldE_exact mode _ 0 h'
  refine ⟨v, hv, ?_⟩
  rw [hn, List.map_map]
  simp [Function.comp_def]

/-- the arithmetic core, on the matrix: `scale (Σ xⱼ) ≤ min 255 (Σ cells)` for every window -/
theorem scale_le_min_cellSum {p : Mat ERat K} {x : ℕ → ℕ → ℚ} (h : FiniteEntries p x) (hK : 2 ≤ K)
    {dm : Discrete ERat K} (hdm : toDiscrete p = .ok dm)
    (sym : ℕ → ℕ) (hsym : ∀ j, j < p.rows → sym j < K) :
    (dm.scale (scoreFn p sym)).toNat ≤ min 255 (cellSum dm sym) := by
  obtain ⟨dm', hdm', hoff, hfac, hrows, hcell⟩ := toDiscrete_closed h hK
  rw [hdm] at hdm'
  cases hdm'
  set f := facQ K x p.rows with hfdef
  by_cases hall : ∀ j, j < p.rows → ∃ q, p.get j (sym j) = .fin q
  · -- every entry of the window is finite
    choose! v hv using hall
    rw [scoreFn_fin p sym v hv]
    unfold Discrete.scale
    simp only [sub_def, div_def, floorU8_def, hoff, hfac, sub_fin, div_fin, floorU8_fin, clampU8_toNat]
    have hcells : cellSum dm sym =
        (((List.range p.rows).map fun j => (v j - qMin x j (K - 2)) / f).map
          fun a => clampNat a.ceil).sum := by
      unfold cellSum
      rw [hrows, List.map_map]
      congr 1
      apply List.map_congr_left
      intro j hj
      have hj' := List.mem_range.mp hj
      rw [hcell j (sym j) hj' (hsym j hj'), hv j hj']
      simp [clampU8_toNat]
    rw [hcells]
    have hsum : ((List.range p.rows).map fun j => (v j - qMin x j (K - 2)) / f).sum =
        (((List.range p.rows).map v).sum - offQ K x p.rows) / f := by
      rw [sum_map_sub_div]; rfl
    rw [← hsum]
    exact clamp_floor_sum_le _
  · -- some entry is −∞: the score is −∞ and its image is 0
    have : ∃ j, j < p.rows ∧ p.get j (sym j) = .bot := by
      by_contra hne
      apply hall
      intro j hj
      cases hq : p.get j (sym j) with
      | bot => exact absurd ⟨j, hj, hq⟩ hne
      | fin q => exact ⟨q, rfl⟩
    obtain ⟨j, hj, hb⟩ := this
    rw [scoreFn_bot p sym j hj hb]
    unfold Discrete.scale
    simp [hoff, hfac]

/-- **C08, saturating accumulation (AVX2 kernel; generic kernel and
    `DiscreteMatrix::score_position` since the repair).**  For every matrix with finite non-wildcard
    entries and `factor > 0`, every window: the 8-bit score is computed without a panic and is at
    least the 8-bit image of the real score. -/
theorem saturating_never_underestimates {p : Mat ERat K} {x : ℕ → ℕ → ℚ} (h : FiniteEntries p x)
    (hK : 2 ≤ K) {dm : Discrete ERat K} (hdm : toDiscrete p = .ok dm) (_hf : 0 < facQ K x p.rows)
    (sym : ℕ → ℕ) (hsym : ∀ j, j < p.rows → sym j < K) :
    Holds .saturating p dm sym := by
  obtain ⟨v, hv, hn⟩ := dscoreFn_saturating dm.data sym
  refine ⟨v, hv, ?_⟩
  rw [UInt8.le_iff_toNat_le, hn]
  exact scale_le_min_cellSum h hK hdm sym hsym

/-- the same for a wrapping or overflow-checked accumulation, **whenever the cells of the window
    add up to at most 255** -/
theorem nonsaturating_partial (mode : AddMode) {p : Mat ERat K} {x : ℕ → ℕ → ℚ}
    (h : FiniteEntries p x) (hK : 2 ≤ K) {dm : Discrete ERat K} (hdm : toDiscrete p = .ok dm)
    (_hf : 0 < facQ K x p.rows) (sym : ℕ → ℕ) (hsym : ∀ j, j < p.rows → sym j < K)
    (hsmall : cellSum dm sym ≤ 255) : Holds mode p dm sym := by
  obtain ⟨v, hv, hn⟩ := dscoreFn_exact mode dm.data sym hsmall
  refine ⟨v, hv, ?_⟩
  rw [UInt8.le_iff_toNat_le, hn]
  have := scale_le_min_cellSum h hK hdm sym hsym
  unfold cellSum at hsmall this
  omega

/-- the statement of the property for one accumulation mode -/
def Statement (mode : AddMode) : Prop :=
  ∀ (K : ℕ) (p : Mat ERat K) (x : ℕ → ℕ → ℚ), FiniteEntries p x → 2 ≤ K →
    ∀ dm, toDiscrete p = .ok dm → 0 < facQ K x p.rows →
      ∀ sym : ℕ → ℕ, (∀ j, j < p.rows → sym j < K) → Holds mode p dm sym

theorem statement_saturating : Statement .saturating :=
  fun _ _ _ h hK _ hdm hf sym hsym => saturating_never_underestimates h hK hdm hf sym hsym

/-! ### `scale` is monotone: no hit is lost -/

theorem scale_mono {dm : Discrete ERat K} {off f : ℚ} (hoff : dm.offset = .fin off)
    (hfac : dm.factor = .fin f) (hf : 0 < f) {a b : ERat} (hab : ERat.le a b = true) :
    dm.scale a ≤ dm.scale b := by
  rw [UInt8.le_iff_toNat_le]
  unfold Discrete.scale
  simp only [sub_def, div_def, floorU8_def, hoff, hfac]
  cases a with
  | bot => simp
  | fin qa =>
    cases b with
    | bot => simp at hab
    | fin qb =>
      simp only [le_fin, decide_eq_true_eq] at hab
      simp only [sub_fin, div_fin, floorU8_fin, clampU8_toNat]
      apply clampNat_mono
      show ⌊(qa - off) / f⌋ ≤ ⌊(qb - off) / f⌋
      apply Int.floor_le_floor
      exact div_le_div_of_nonneg_right (by linarith) hf.le

/-- **never lose a hit**: a window whose real score meets the threshold `t` has an 8-bit score
    that meets the byte threshold `scale t` -/
theorem never_lose_a_hit {p : Mat ERat K} {x : ℕ → ℕ → ℚ} (h : FiniteEntries p x)
    (hK : 2 ≤ K) {dm : Discrete ERat K} (hdm : toDiscrete p = .ok dm) (hf : 0 < facQ K x p.rows)
    (sym : ℕ → ℕ) (hsym : ∀ j, j < p.rows → sym j < K) (t : ERat)
    (ht : ScanScalar.ge (scoreFn p sym) t = true) :
    ∃ v, dscoreFn .saturating dm.data sym = .ok v ∧ dm.scale t ≤ v := by
  obtain ⟨v, hv, hle⟩ := saturating_never_underestimates h hK hdm hf sym hsym
  obtain ⟨dm', hdm', hoff, hfac, -, -⟩ := toDiscrete_closed h hK
  rw [hdm] at hdm'; cases hdm'
  exact ⟨v, hv, Nat.le_trans (scale_mono hoff hfac hf ht) hle⟩

/-! ### the non-saturating accumulations violate the property (the code before the repair) -/

deriving instance DecidableEq for Except

/-- a two-column motif whose consensus is `C C`: both rows are `[0, 1, 0, 0 | −∞]` -/
def pex : Mat ERat 5 := Mat.ofFn 2 fun _ j => if j = 4 then .bot else if j = 1 then .fin 1 else .fin 0
def xex : ℕ → ℕ → ℚ := fun _ a => if a = 1 then 1 else 0
/-- the consensus window -/
def symx : ℕ → ℕ := fun _ => 1

/-- what the code computes on the consensus window: (8-bit score, image of the real score) -/
def obs (mode : AddMode) : Option (Except String UInt8 × UInt8) :=
  match toDiscrete pex with
  | .ok dm => some (dscoreFn mode dm.data symx, dm.scale (scoreFn pex symx))
  | .error _ => none

theorem pex_finite : FiniteEntries pex xex := by
  intro i a hi ha
  have hi' : i < 2 := by simpa [pex] using hi
  have ha' : a < 5 := by omega
  have h4 : a ≠ 4 := by omega
  simp only [pex, Mat.get_ofFn, hi', ha', and_self, if_true, xex]
  by_cases h1 : a = 1 <;> simp [h4, h1]

theorem pex_factor_pos : 0 < facQ 5 xex pex.rows := by
  have : pex.rows = 2 := by simp [pex]
  rw [this]; decide +kernel

theorem nonsaturating_fails (mode : AddMode) (r : Except String UInt8 × UInt8)
    (hobs : obs mode = some r) (hbad : ∀ v, r.1 = .ok v → ¬ r.2 ≤ v) : ¬ Statement mode := by
  intro hst
  obtain ⟨dm, hdm, -⟩ := toDiscrete_closed pex_finite (by decide : 2 ≤ 5)
  obtain ⟨v, hv, hle⟩ := hst 5 pex xex pex_finite (by decide) dm hdm pex_factor_pos symx
    (fun _ _ => by simp [symx])
  unfold obs at hobs
  rw [hdm] at hobs
  simp only [Option.some.injEq] at hobs
  subst hobs
  exact hbad v hv hle

/-- wrapping `+=` (release build before the repair): the two cells are 128 + 128 = 256 ≡ 0, while
    the real score 2 = `max_score` has image 255 -/
theorem wrapping_counterexample : ¬ Statement .wrapping := by
  apply nonsaturating_fails .wrapping (.ok 0, 255) (by decide +kernel)
  intro v hv
  cases hv
  decide

/-- overflow-checked `+=` (dev build before the repair): the accumulation panics -/
theorem checked_counterexample : ¬ Statement .checked := by
  apply nonsaturating_fails .checked (.error "u8-overflow", 255) (by decide +kernel)
  intro v hv
  cases hv

/-- non-vacuity of `saturating_never_underestimates` / `never_lose_a_hit`: on the same matrix the
    saturating accumulation gives 255 ≥ 255 -/
example : obs .saturating = some (.ok 255, 255) := by decide +kernel

example : ∃ dm, toDiscrete pex = .ok dm ∧ Holds .saturating pex dm symx := by
  obtain ⟨dm, hdm, -⟩ := toDiscrete_closed pex_finite (by decide : 2 ≤ 5)
  exact ⟨dm, hdm, saturating_never_underestimates pex_finite (by decide) hdm pex_factor_pos symx
    (fun _ _ => by simp [symx])⟩

/-! ### every backend: the cells of a scored block -/

/-- symbols of the padded sequence are symbols -/
theorem pad_lt {N : ℕ} {s : List ℕ} (hs : ∀ a ∈ s, a < K) (hN : N < K) (i : ℕ) : pad N s i < K := by
  unfold pad
  rw [List.getD_eq_getElem?_getD]
  cases h : s[i]? with
  | none => simpa using hN
  | some a => simpa using hs a (List.mem_of_getElem? h)

/-- the window of position `i` of the (padded) sequence -/
def window (N : ℕ) (s : List ℕ) (i : ℕ) : ℕ → ℕ := fun j => pad N s (i + j)

/-- under the striping invariant with `W ≥ M − 1`, the column window of cell `(row, c)` of a
    sequence row is the window of position `c·R + row` -/
theorem colWindow_eq {C : ℕ} {N : ℕ} {st : Striped C} {s : List ℕ} (hinv : C04.Inv N st s) (M : ℕ)
    (hwrap : M - 1 ≤ st.wrap) (row c : ℕ) (hrow : row < C04.seqRowsOf C s.length) (hc : c < C)
    (j : ℕ) (hj : j < M) :
    colWindow st row c j = window N s (c * C04.seqRowsOf C s.length + row) j := by
  unfold colWindow window
  exact C04.lookahead N st s hinv row j c hrow (by omega) hc

theorem dscoreFn_congr (mode : AddMode) (dm : Mat UInt8 K) (f g : ℕ → ℕ)
    (h : ∀ j, j < dm.rows → f j = g j) : dscoreFn mode dm f = dscoreFn mode dm g := by
  unfold dscoreFn
  apply foldE_congr
  intro s j hj
  rw [h j (List.mem_range.mp hj)]

theorem scoreFn_congr {α : Type} [ScanScalar α] [Inhabited α] (p : Mat α K) (f g : ℕ → ℕ)
    (h : ∀ j, j < p.rows → f j = g j) : scoreFn p f = scoreFn p g := by
  unfold scoreFn
  apply List.foldl_ext
  intro s j hj
  rw [h j (List.mem_range.mp hj)]

/-- **C08 for every backend and both build profiles** (the code after the repair): scoring the
    sequence rows `lo..hi` of a striped, configured sequence through any dispatcher arm does not
    panic, and cell `(r, c)` of the result is at least the 8-bit image of the real score of
    position `c·R + lo + r` — for positions inside the sequence and for the cells past its end
    (windows running into the padding), whatever the wildcard column holds. -/
theorem backend_never_underestimates {C : ℕ} (arm : Arm) (overflowChecks : Bool)
    {p : Mat ERat K} {x : ℕ → ℕ → ℚ} (h : FiniteEntries p x) (hK : 2 ≤ K)
    {dm : Discrete ERat K} (hdm : toDiscrete p = .ok dm) (hf : 0 < facQ K x p.rows)
    (st : Striped C) (s : List ℕ) (hinv : C04.Inv (K - 1) st s) (hs : ∀ a ∈ s, a < K)
    (hM : 1 ≤ p.rows) (hwrap : p.rows - 1 ≤ st.wrap) (hLM : p.rows ≤ s.length)
    (lo hi : ℕ) (hlo : lo < hi) (hhi : hi ≤ C04.seqRowsOf C s.length) :
    ∃ sc, scoreRowsDispatch arm (accOf overflowChecks) dm.data st lo hi = .ok sc ∧
      sc.data.rows = hi - lo ∧ sc.maxIndex = s.length + 1 - p.rows ∧
      ∀ r c, r < hi - lo → c < C →
        dm.scale (scoreFn p (window (K - 1) s (c * C04.seqRowsOf C s.length + lo + r))) ≤
          sc.data.get r c := by
  obtain ⟨dm', hdm', -, -, hrows, -⟩ := toDiscrete_closed h hK
  rw [hdm] at hdm'; cases hdm'
  have hcells : ∀ r c, r < hi - lo → c < C →
      ∃ v, dscoreFn .saturating dm.data (colWindow st (lo + r) c) = .ok v := by
    intro r c _ _
    obtain ⟨v, hv, -⟩ := dscoreFn_saturating dm.data (colWindow st (lo + r) c)
    exact ⟨v, hv⟩
  have hlen : dm.data.rows ≤ st.length := by rw [hrows, hinv.len]; exact hLM
  have hspec : ∃ sc, scoreRowsDispatch arm (accOf overflowChecks) dm.data st lo hi = .ok sc ∧
      BlockSpec .saturating dm.data st lo hi sc := by
    cases arm with
    | avx2 =>
      exact scoreRowsAvx2_ok dm.data st lo hi (by omega) (by omega) hlen hlo hcells
    | generic =>
      exact scoreRowsGeneric_ok .saturating dm.data st lo hi hlen hlo
        (by rw [hinv.rows, hrows]; omega) hcells
    | sse2 =>
      exact scoreRowsGeneric_ok .saturating dm.data st lo hi hlen hlo
        (by rw [hinv.rows, hrows]; omega) hcells
  obtain ⟨sc, hsc, hspec⟩ := hspec
  refine ⟨sc, hsc, hspec.rows, by rw [hspec.maxIndex, hinv.len, hrows], ?_⟩
  intro r c hr hc
  have hwin : ∀ j, j < p.rows → colWindow st (lo + r) c j =
      window (K - 1) s (c * C04.seqRowsOf C s.length + lo + r) j := by
    intro j hj
    rw [colWindow_eq hinv p.rows hwrap (lo + r) c (by omega) hc j hj, Nat.add_assoc]
  obtain ⟨v, hv, hle⟩ := saturating_never_underestimates h hK hdm hf
    (window (K - 1) s (c * C04.seqRowsOf C s.length + lo + r))
    (fun j _ => pad_lt hs (by omega) _)
  have hcell := hspec.cell r c hr hc
  rw [dscoreFn_congr .saturating dm.data _ _ (by rw [hrows]; exact hwin), hv] at hcell
  cases hcell
  exact hle

/-- `DiscreteMatrix::score_position` / `ScoringMatrix::score_position` at a position of the
    sequence read the window of that position and do not panic -/
theorem dscorePosition_eq {C : ℕ} (hC : 0 < C) (mode : AddMode) (dm : Mat UInt8 K) {N : ℕ}
    {st : Striped C} {s : List ℕ} (hinv : C04.Inv N st s) (pos : ℕ) (hpos : pos + dm.rows ≤ s.length) :
    dscorePosition mode dm st pos = dscoreFn mode dm (window N s pos) := by
  unfold dscorePosition dscoreFn
  apply foldE_congr
  intro v j hj
  have hj' := List.mem_range.mp hj
  rw [C04.index_eq hC N st s hinv (pos + j) (by omega)]
  rfl

theorem scorePosition_eq {C : ℕ} (hC : 0 < C) (p : Mat ERat K) {N : ℕ}
    {st : Striped C} {s : List ℕ} (hinv : C04.Inv N st s) (pos : ℕ) (hpos : pos + p.rows ≤ s.length) :
    scorePosition p st pos = .ok (scoreFn p (window N s pos)) := by
  unfold scorePosition scoreFn
  apply foldE_ok
  intro v j hj
  have hj' := List.mem_range.mp hj
  rw [C04.index_eq hC N st s hinv (pos + j) (by omega)]
  rfl

/-- **C08 for `DiscreteMatrix::score_position`** (both build profiles, after the repair) -/
theorem score_position_never_underestimates {C : ℕ} (hC : 0 < C) (overflowChecks : Bool)
    {p : Mat ERat K} {x : ℕ → ℕ → ℚ} (h : FiniteEntries p x) (hK : 2 ≤ K)
    {dm : Discrete ERat K} (hdm : toDiscrete p = .ok dm) (hf : 0 < facQ K x p.rows)
    (st : Striped C) (s : List ℕ) (hinv : C04.Inv (K - 1) st s) (hs : ∀ a ∈ s, a < K)
    (pos : ℕ) (hpos : pos + p.rows ≤ s.length) :
    ∃ v sc, dscorePosition (accOf overflowChecks) dm.data st pos = .ok v ∧
      scorePosition p st pos = .ok sc ∧ dm.scale sc ≤ v := by
  obtain ⟨dm', hdm', -, -, hrows, -⟩ := toDiscrete_closed h hK
  rw [hdm] at hdm'; cases hdm'
  obtain ⟨v, hv, hle⟩ := saturating_never_underestimates h hK hdm hf (window (K - 1) s pos)
    (fun j _ => pad_lt hs (by omega) _)
  refine ⟨v, _, ?_, scorePosition_eq hC p hinv pos hpos, hle⟩
  show dscorePosition .saturating dm.data st pos = .ok v
  rw [dscorePosition_eq hC .saturating dm.data hinv pos (by rw [hrows]; exact hpos)]
  exact hv

end C08
end LMV
