/-
  C15 — Motif file readers never panic or hang on malformed input.

  For every byte string, every schedule of chunk sizes (and, for the two JASPAR readers, every
  buffer-capacity policy), on the repaired code:
    * `Reader::new` and the n-th call of `next`, for every n — also after errors and after the end
      of input — return a record, an error or end of input, never a panic;
    * every call terminates: the models are total functions without fuel (the recursions are on the
      remaining stream / input); the two guarded parser loops never take their guard
      (`transfac_reference_line_consumes`, `transfac_record_step_consumes`);
    * a successful `next` strictly decreases a measure of the reader state (`|stream| + |buffer| −
      start` for JASPAR, `|stream| + |pending line|` for UniPROBE, `|stream| + |buffer|` for
      TRANSFAC) that starts at no more than the input length, so a consumer that stops at the first
      error or end of input receives at most `|input|` records and makes at most `|input| + 1`
      calls.  End of file is sticky in the stream model (`eof_sticky`).
-/
import LMV.Lemmas.Jaspar
import LMV.Lemmas.Uniprobe
import LMV.Lemmas.Transfac

namespace LMV
namespace C15

open Io Nom

/-! ### a consumer of a reader, abstractly -/

variable {σ ρ : Type}

/-- the reader state after `n` calls of `next` -/
def afterCalls (step : σ → Outcome ρ × σ) : Nat → σ → σ
  | 0, s => s
  | n + 1, s => afterCalls step n (step s).2

/-- the first `n` calls all returned records -/
def allRecords (step : σ → Outcome ρ × σ) : Nat → σ → Bool
  | 0, _ => true
  | n + 1, s => (step s).1.isRecord && allRecords step n (step s).2

theorem never_panics_of_inv (step : σ → Outcome ρ × σ) (Inv : σ → Prop)
    (h : ∀ s, Inv s → (∀ site, (step s).1 ≠ .panic site) ∧ Inv (step s).2) :
    ∀ (n : Nat) (s : σ), Inv s → ∀ site, (step (afterCalls step n s)).1 ≠ .panic site := by
  intro n
  induction n with
  | zero => intro s hs; exact (h s hs).1
  | succ n ih => intro s hs; exact ih _ (h s hs).2

theorem records_bounded (step : σ → Outcome ρ × σ) (Inv : σ → Prop) (μ : σ → Nat)
    (hinv : ∀ s, Inv s → Inv (step s).2)
    (hdec : ∀ s, Inv s → ∀ r, (step s).1 = .record r → μ (step s).2 < μ s) :
    ∀ (n : Nat) (s : σ), Inv s → allRecords step n s = true → n ≤ μ s := by
  intro n
  induction n with
  | zero => intro s _ _; exact Nat.zero_le _
  | succ n ih =>
    intro s hs h
    simp only [allRecords, Bool.and_eq_true] at h
    have hrec : ∃ r, (step s).1 = .record r := by
      cases hr : (step s).1 <;> simp [Outcome.isRecord, hr] at h
      exact ⟨_, rfl⟩
    obtain ⟨r, hr⟩ := hrec
    have := hdec s hs r hr
    have := ih _ (hinv s hs) h.2
    omega

/-! ### the stream -/

/-- end of file is sticky in the stream model: once the data is exhausted every read returns 0 -/
theorem eof_sticky (d : UInt8) (sched : List Nat) :
    (readUntil d sched []).1 = [] ∧ (readUntil d sched []).2.1 = [] := by
  simpa [through, after] using readUntil_eq d sched []

/-! ### JASPAR (raw) -/

/-- **JASPAR (raw): no call ever panics.**  `Reader::new` is total; the call number `n + 1` of
    `next` does not panic, whatever the bytes, the chunk schedule and the capacity policy. -/
theorem jaspar_never_panics (grow : Nat → Nat → Nat → Nat) (sched : List Nat) (bytes : Bytes)
    (n : Nat) (site : String) :
    (Jaspar.next Jaspar.record grow
      (afterCalls (Jaspar.next Jaspar.record grow) n (Jaspar.new grow sched bytes))).1 ≠ .panic site :=
  never_panics_of_inv _ Jaspar.Inv
    (fun s hs => Jaspar.next_safe _ Jaspar.good_record (fun _ _ _ h => Jaspar.record_noPanic h) grow s hs)
    n _ (Jaspar.new_inv grow sched bytes) site

theorem jaspar_new_measure (grow : Nat → Nat → Nat → Nat) (sched : List Nat) (bytes : Bytes) :
    Jaspar.measure (Jaspar.new grow sched bytes) ≤ bytes.length := by
  have h := Jaspar.readUntil_length 0x3E sched bytes
  simp only [Jaspar.measure, Jaspar.new]
  omega

/-- **JASPAR (raw): a consumer that stops at the first error or end of input terminates**: it
    receives at most `|input|` records. -/
theorem jaspar_consumer_terminates (grow : Nat → Nat → Nat → Nat) (sched : List Nat) (bytes : Bytes)
    (n : Nat) (h : allRecords (Jaspar.next Jaspar.record grow) n (Jaspar.new grow sched bytes) = true) :
    n ≤ bytes.length := by
  have := records_bounded _ Jaspar.Inv Jaspar.measure
    (fun s hs => (Jaspar.next_safe _ Jaspar.good_record (fun _ _ _ h => Jaspar.record_noPanic h) grow s hs).2)
    (fun s hs r hr => Jaspar.next_record_decreases _ Jaspar.good_record Jaspar.strict_record grow s hs r hr)
    n _ (Jaspar.new_inv grow sched bytes) h
  have := jaspar_new_measure grow sched bytes
  omega

/-! ### JASPAR 2016 -/

theorem jaspar16_never_panics (A : Alphabet) (hA : A.IndexOK) (grow : Nat → Nat → Nat → Nat)
    (sched : List Nat) (bytes : Bytes) (n : Nat) (site : String) :
    (Jaspar.next (Jaspar16.record A) grow
      (afterCalls (Jaspar.next (Jaspar16.record A) grow) n (Jaspar.new grow sched bytes))).1 ≠ .panic site :=
  never_panics_of_inv _ Jaspar.Inv
    (fun s hs => Jaspar.next_safe _ (Jaspar16.good_record A)
      (fun _ _ _ h => Jaspar16.record_noPanic hA h) grow s hs)
    n _ (Jaspar.new_inv grow sched bytes) site

theorem jaspar16_consumer_terminates (A : Alphabet) (hA : A.IndexOK) (grow : Nat → Nat → Nat → Nat)
    (sched : List Nat) (bytes : Bytes) (n : Nat)
    (h : allRecords (Jaspar.next (Jaspar16.record A) grow) n (Jaspar.new grow sched bytes) = true) :
    n ≤ bytes.length := by
  have := records_bounded _ Jaspar.Inv Jaspar.measure
    (fun s hs => (Jaspar.next_safe _ (Jaspar16.good_record A)
      (fun _ _ _ h => Jaspar16.record_noPanic hA h) grow s hs).2)
    (fun s hs r hr => Jaspar.next_record_decreases _ (Jaspar16.good_record A) (Jaspar16.strict_record A)
      grow s hs r hr)
    n _ (Jaspar.new_inv grow sched bytes) h
  have := jaspar_new_measure grow sched bytes
  omega

/-! ### UniPROBE -/

theorem uniprobe_never_panics {α : Type} (A : Alphabet) (hA : A.IndexOK) (conv : Bytes → Option α)
    (zero : α) (freqOk : Mat α A.K → Bool) (sched : List Nat) (bytes : Bytes) (n : Nat) (site : String) :
    (Uniprobe.next A conv zero freqOk
      (afterCalls (Uniprobe.next A conv zero freqOk) n (Uniprobe.new sched bytes))).1 ≠ .panic site :=
  never_panics_of_inv _ (fun _ => True)
    (fun s _ => ⟨fun site => Uniprobe.next_noPanic hA conv zero freqOk s site, trivial⟩)
    n _ trivial site

theorem uniprobe_consumer_terminates {α : Type} (A : Alphabet) (hA : A.IndexOK)
    (conv : Bytes → Option α) (zero : α) (freqOk : Mat α A.K → Bool) (sched : List Nat)
    (bytes : Bytes) (n : Nat)
    (h : allRecords (Uniprobe.next A conv zero freqOk) n (Uniprobe.new sched bytes) = true) :
    n ≤ bytes.length := by
  have := records_bounded _ (fun _ => True) Uniprobe.measure (fun _ _ => trivial)
    (fun s _ r hr => Uniprobe.next_record_decreases hA conv zero freqOk s r hr)
    n (Uniprobe.new sched bytes) trivial h
  simpa [Uniprobe.measure, Uniprobe.new] using this

/-! ### TRANSFAC -/

/-- **TRANSFAC: `Reader::new` never panics** -/
theorem transfac_new_never_panics (sched : List Nat) (bytes : Bytes) :
    ∃ s, Transfac.new sched bytes = .ok s := by
  obtain ⟨s, h, _⟩ := Transfac.new_ok sched bytes
  exact ⟨s, h⟩

theorem transfac_never_panics {α : Type} (A : Alphabet) (hA : A.IndexOK) (conv : Bytes → Option α)
    (zero : α) (sched : List Nat) (bytes : Bytes) (s0 : Transfac.State)
    (h0 : Transfac.new sched bytes = .ok s0) (n : Nat) (site : String) :
    (Transfac.next A conv zero (afterCalls (Transfac.next A conv zero) n s0)).1 ≠ .panic site := by
  obtain ⟨s, h, hinv, _⟩ := Transfac.new_ok sched bytes
  rw [h0] at h
  cases h
  exact never_panics_of_inv _ Transfac.Inv (fun s hs => Transfac.next_safe hA conv zero s hs) n _ hinv site

theorem transfac_consumer_terminates {α : Type} (A : Alphabet) (hA : A.IndexOK)
    (conv : Bytes → Option α) (zero : α) (sched : List Nat) (bytes : Bytes) (s0 : Transfac.State)
    (h0 : Transfac.new sched bytes = .ok s0) (n : Nat)
    (h : allRecords (Transfac.next A conv zero) n s0 = true) : n ≤ bytes.length := by
  obtain ⟨s, hs, hinv, hm⟩ := Transfac.new_ok sched bytes
  rw [h0] at hs
  cases hs
  have := records_bounded _ Transfac.Inv Transfac.measure
    (fun s hs => (Transfac.next_safe hA conv zero s hs).2)
    (fun s hs r hr => Transfac.next_record_decreases conv zero s hs r hr) n _ hinv h
  omega

/-- the guard in the model of `parse_reference`'s loop is dead code -/
theorem transfac_reference_line_consumes (i r : Bytes)
    (h : Transfac.referenceLine i = .ok r (some ())) : r.length < i.length :=
  Transfac.referenceLine_lt i r h

/-- the guard in the model of `parse_record`'s loop is dead code -/
theorem transfac_record_step_consumes {α : Type} (A : Alphabet) (hA : A.IndexOK)
    (conv : Bytes → Option α) (zero : α) (r r' : Transfac.TRecord α A.K) (i rest : Bytes)
    (h : Transfac.recordStep A conv zero space1 r i = .continue rest r') : rest.length < i.length :=
  Transfac.recordStep_lt hA conv zero r r' i rest h

/-- the defect that was repaired, on the model: with the *streaming* `space1` the alphabet line
    `P0` at the end of the input makes `parse_record` return `Incomplete`, which the conversion to
    `lightmotif_io::Error` treats as `unreachable!()` -/
theorem transfac_streaming_space1_counterexample :
    Transfac.parseRecordWith dna (fun _ => some (0 : Nat)) 0 space1S [0x50, 0x30] = .error .incomplete := by
  have hstep : Transfac.recordStep dna (fun _ => some (0 : Nat)) 0 space1S {} [0x50, 0x30]
      = .error .incomplete := by rfl
  unfold Transfac.parseRecordWith
  rw [Transfac.recordLoop, hstep]

/-! ### both alphabets of the library satisfy the hypothesis -/

theorem alphabets_indexOK : dna.IndexOK ∧ protein.IndexOK := ⟨dna_indexOK, protein_indexOK⟩

/-! ### non-vacuity -/

-- a state with a pending error-free history exists and the theorems apply to it
example : (Jaspar.next Jaspar.record Jaspar.growAmortized
    (Jaspar.new Jaspar.growAmortized [1, 2] [0x3E, 0x61])).1.isPanic = false := by
  have := jaspar_never_panics Jaspar.growAmortized [1, 2] [0x3E, 0x61] 0
  cases h : (Jaspar.next Jaspar.record Jaspar.growAmortized
    (Jaspar.new Jaspar.growAmortized [1, 2] [0x3E, 0x61])).1 with
  | panic site => exact absurd h (this site)
  | _ => rfl

example : allRecords (Uniprobe.next dna (fun _ => some (0 : Nat)) 0 (fun _ => true)) 0
    (Uniprobe.new [] [0x41]) = true := rfl

example : ∃ s, Transfac.new [3] [0x56, 0x56, 0x0A, 0x2F, 0x2F, 0x0A] = .ok s :=
  transfac_new_never_panics _ _

end C15
end LMV
