/-
  C15 — Motif file readers never panic or hang on malformed input.
-/
import LMV.Lemmas.Stream

namespace LMV
namespace C15

open Io

/-- end of file is sticky in the stream model: once the data is exhausted every read returns 0 -/
theorem eof_sticky (d : UInt8) (sched : List Nat) :
    (readUntil d sched []).1 = [] ∧ (readUntil d sched []).2.1 = [] := by
  simpa [through, after] using readUntil_eq d sched []

end C15
end LMV
