/-
  C16 — Gibbs sampler state always equals a recomputation from its alignment.

  Model: `LMV.Model.Sampler` (`init`, `next`, `run`; the random draws and the floating-point
  decisions are inputs constrained by `InitAdm` / `Adm` exactly as the code constrains them).
  The alignment a state describes is `(st s, act s)`; what "the counts of an alignment" means is
  `alignMotif` / `alignBg` / `alignCount` (LMV.Lemmas.SamplerInv), written from the property text.

  Everything here is for every dataset, alphabet size, width, mode, parameter set, and every finite
  stream of admissible choices (i.e. every seed and every run length).
-/
import LMV.Lemmas.SamplerInit
import LMV.Lemmas.SamplerCount
import LMV.Lemmas.SamplerReport

namespace LMV
namespace C16

open Sampler

variable {K : Nat} {D : Data} {P : Params}

/-! ### hypotheses -/

/-- "any dataset whose sequences are longer than the width" -/
def Longer (D : Data) (w : Nat) : Prop := ∀ i, i < D.n → w < (D.seq i).size

/-- every choice along a run is admissible in the state in which it is made -/
def AdmRun (D : Data) (P : Params) : State K → List Choice → Prop
  | _, [] => True
  | s, c :: cs => Adm D P s c ∧ ∀ s' it, next D P s c = .ok (some (s', it)) → AdmRun D P s' cs

/-- at least two sequences are active -/
def TwoActive (D : Data) (s : State K) : Prop :=
  ∃ i j, i < D.n ∧ j < D.n ∧ i ≠ j ∧ act s i = true ∧ act s j = true

/-! ### the invariant holds initially -/

/-- `Inv init`: whatever `_new` draws, the state it builds equals the recomputation from its
    alignment. -/
theorem inv_init {ic : InitChoice} {s : State K} (hwf : D.WF K) (hadm : InitAdm D P ic)
    (h : init D P ic = .ok s) : Inv D P.w s := by
  rcases init_spec (K := K) hwf hadm with ⟨_, he⟩ | ⟨_, s', hs', hinv, _⟩
  · rw [he] at h; cases h
  · rw [hs'] at h; cases h; exact hinv

/-- `_new` panics exactly when a sequence has fewer wrap rows than the width. -/
theorem init_panics_iff {ic : InitChoice} (hwf : D.WF K) (hadm : InitAdm D P ic) :
    (∃ e, init (K := K) D P ic = .error e) ↔ D.wraps.any (· < P.w) = true := by
  rcases init_spec (K := K) hwf hadm with ⟨hw, he⟩ | ⟨hw, s', hs', _⟩
  · exact ⟨fun _ => hw, fun _ => ⟨_, he⟩⟩
  · constructor
    · intro ⟨e, he⟩; rw [hs'] at he; cases he
    · intro h; rw [hw] at h; cases h

/-- The background clause in the form the code maintains it: the background counts are the cached
    symbol counts of the active sequences minus their window counts (no truncation: stated as
    `background + windows = cached counts`). -/
theorem bg_is_counts_minus_windows {s : State K} (hwf : D.WF K) (hinv : Inv D P.w s) (c : Nat) (hc : c < K) :
    s.bg.getD c 0 + sumTo D.n (fun i => if act s i = true then winCount (D.seq i) (st s i) P.w c else 0) =
      sumTo D.n (fun i => if act s i = true then (D.cnt i).getD c 0 else 0) := by
  rw [hinv.bg c hc]
  unfold alignBg
  rw [← sumTo_add]
  apply sumTo_congr
  intro i hi
  by_cases ha : act s i = true
  · rw [if_pos ha, if_pos ha, if_pos ha, hwf.cnt i hi c hc, symCount_eq _ (st s i) P.w c (hinv.inside i hi)]
  · rw [if_neg ha, if_neg ha, if_neg ha]

/-! ### the invariant is preserved by every step, in both modes -/

/-- `Inv s → Inv (step s c).1` for every admissible choice. -/
theorem inv_step {s s' : State K} {c : Choice} {it : Iteration K} (hwf : D.WF K)
    (hinv : Inv D P.w s) (hadm : Adm D P s c) (h : next D P s c = .ok (some (s', it))) :
    Inv D P.w s' := by
  have hnc : s.converged = false := by
    cases hc : s.converged with
    | false => rfl
    | true => unfold next at h; rw [if_pos hc] at h; cases h
  rcases (next_spec hwf hinv hadm hnc).2 with ⟨_, he⟩ | ⟨_, s2, it2, hs2, hinv2, _⟩
  · rw [he] at h; cases h
  · rw [hs2] at h; cases h; exact hinv2

/-- What a step yields: `Iteration.counts` is the count matrix of the alignment *without* the
    held-out sequence (and its sequence count the number of the other active sequences); the new
    state differs from the old alignment only at `z`. -/
theorem iteration_counts {s s' : State K} {c : Choice} {it : Iteration K} (hwf : D.WF K)
    (hinv : Inv D P.w s) (hadm : Adm D P s c) (h : next D P s c = .ok (some (s', it))) :
    it.z = c.z ∧ it.step = s.step ∧
    (∀ j, j < P.w → ∀ cc, cc < K →
      it.counts.get j cc = alignMotif D (st s) (without (act s) c.z) j cc) ∧
    it.n = alignCount D (without (act s) c.z) ∧
    act s' = actAfter P (act s) c ∧ st s' = stAfter (st s) c ∧ s'.step = s.step + 1 := by
  have hnc : s.converged = false := by
    cases hc : s.converged with
    | false => rfl
    | true => unfold next at h; rw [if_pos hc] at h; cases h
  rcases (next_spec hwf hinv hadm hnc).2 with ⟨_, he⟩ | ⟨_, s2, it2, hs2, _, ha, hs, hstep, _, hz, hst, hc, hn⟩
  · rw [he] at h; cases h
  · rw [hs2] at h; cases h; exact ⟨hz, hst, hc, hn, ha, hs, hstep⟩

/-- When `WeightedIndex::new` fails the start is left unchanged: the step with `start = none` *is*
    the step that draws the old start again (so observing the start after the step determines the
    choice, which is how the correspondence run feeds the model). -/
theorem start_none_is_old_start (s : State K) (z : Nat) (d : Bool) :
    next D P s ⟨z, none, d⟩ = next D P s ⟨z, some (st s z), d⟩ := next_none_eq D P s z d

/-! ### panics -/

/-- A step panics exactly when nothing remains outside the windows once `z` is held out
    (`Background::from_counts(..).unwrap()` in `prepare_pssm`); no other panic site — index,
    `u32`/`usize` underflow, empty seed list — is reachable from a state satisfying the invariant. -/
theorem step_panics_iff {s : State K} {c : Choice} (hwf : D.WF K) (hinv : Inv D P.w s)
    (hadm : Adm D P s c) (hnc : s.converged = false) :
    (∃ e, next D P s c = .error e) ↔ NothingLeft D P.w s c.z := by
  rcases (next_spec hwf hinv hadm hnc).2 with ⟨hn, he⟩ | ⟨hn, s2, it2, hs2, _⟩
  · exact ⟨fun _ => hn, fun _ => ⟨_, he⟩⟩
  · constructor
    · intro ⟨e, he⟩; rw [hs2] at he; cases he
    · intro h; exact absurd h hn

/-- With every sequence longer than the width, "nothing left" means: no sequence other than `z`
    is active. -/
theorem nothingLeft_iff {s : State K} {z : Nat} (hwf : D.WF K) (hL : Longer D P.w)
    (hinv : Inv D P.w s) :
    NothingLeft D P.w s z ↔ ∀ i, i < D.n → i ≠ z → act s i = false := by
  unfold NothingLeft alignBg
  constructor
  · intro h i hi hiz
    cases ha : act s i with
    | false => rfl
    | true =>
      exfalso
      obtain ⟨k, hk, hpos⟩ := outCount_pos (D.seq i) (st s i) P.w (hinv.inside i hi) (hL i hi)
      have hc := hwf.sym i hi k hk
      have h0 := h _ hc
      rw [sumTo_eq_zero] at h0
      have := h0 i hi
      have hw : without (act s) z i = true := by unfold without; rw [if_neg hiz]; exact ha
      rw [if_pos hw] at this
      omega
  · intro h c _
    rw [sumTo_eq_zero]
    intro i hi
    have : without (act s) z i = false := by
      unfold without
      by_cases e : i = z
      · rw [if_pos e]
      · rw [if_neg e]; exact h i hi e
    rw [this]; rfl

/-- With two active sequences a step never panics, and two sequences stay active (a previously
    active sequence is never dropped). -/
theorem step_ok_of_two_active {s : State K} {c : Choice} (hwf : D.WF K) (hL : Longer D P.w)
    (hinv : Inv D P.w s) (hadm : Adm D P s c) (hnc : s.converged = false) (h2 : TwoActive D s) :
    ∃ s' it, next D P s c = .ok (some (s', it)) ∧ TwoActive D s' := by
  obtain ⟨i, j, hi, hj, hij, hai, haj⟩ := h2
  have hnl : ¬ NothingLeft D P.w s c.z := by
    rw [nothingLeft_iff hwf hL hinv]
    intro h
    by_cases e : i = c.z
    · have := h j hj (fun x => hij (by rw [e, x])); rw [haj] at this; cases this
    · have := h i hi e; rw [hai] at this; cases this
  rcases (next_spec hwf hinv hadm hnc).2 with ⟨hn, _⟩ | ⟨_, s2, it2, hs2, _, ha, _⟩
  · exact absurd hn hnl
  · refine ⟨s2, it2, hs2, i, j, hi, hj, hij, ?_, ?_⟩
    · rw [ha]; unfold actAfter
      by_cases e : i = c.z
      · rw [if_pos e, if_neg (fun hh => by rw [← e, hai] at hh; cases hh.2.1)]
      · rw [if_neg e]; exact hai
    · rw [ha]; unfold actAfter
      by_cases e : j = c.z
      · rw [if_pos e, if_neg (fun hh => by rw [← e, haj] at hh; cases hh.2.1)]
      · rw [if_neg e]; exact haj

/-! ### whole runs: every seed, every run length -/

/-- The invariant holds after every step of every run — induction over the choice stream. -/
theorem inv_run (hwf : D.WF K) : ∀ (cs : List Choice) (s : State K), Inv D P.w s → AdmRun D P s cs →
    ∀ x, x ∈ (run D P s cs).1 → Inv D P.w x.1 := by
  intro cs
  induction cs with
  | nil => intro s _ _ x hx; simp [run] at hx
  | cons c cs ih =>
    intro s hinv hadm x hx
    obtain ⟨ha, hrest⟩ := hadm
    unfold run at hx
    cases hn : next D P s c with
    | error e => rw [hn] at hx; simp at hx
    | ok r =>
      cases r with
      | none => rw [hn] at hx; simp at hx
      | some p =>
        obtain ⟨s', it⟩ := p
        rw [hn] at hx
        have hinv' := inv_step hwf hinv ha hn
        simp only [List.mem_cons] at hx
        rcases hx with rfl | hx
        · exact hinv'
        · exact ih s' hinv' (hrest s' it hn) x hx

/-- what the property demands of one step `s → (s', it)`: the new state equals the recomputation
    from its alignment, and the iteration reports the previous alignment without `it.z` -/
def StepOK (D : Data) (P : Params) (s s' : State K) (it : Iteration K) : Prop :=
  Inv D P.w s' ∧
  (∀ j, j < P.w → ∀ cc, cc < K →
    it.counts.get j cc = alignMotif D (st s) (without (act s) it.z) j cc) ∧
  it.n = alignCount D (without (act s) it.z)

def TraceOK (D : Data) (P : Params) : State K → List (State K × Iteration K) → Prop
  | _, [] => True
  | s, x :: rest => StepOK D P s x.1 x.2 ∧ TraceOK D P x.1 rest

/-- Every step of every run satisfies the property: state = recomputation from the alignment, and
    `Iteration.counts` = counts of the alignment without the held-out sequence. -/
theorem trace_ok (hwf : D.WF K) : ∀ (cs : List Choice) (s : State K), Inv D P.w s →
    AdmRun D P s cs → TraceOK D P s (run D P s cs).1 := by
  intro cs
  induction cs with
  | nil => intro s _ _; simp [run, TraceOK]
  | cons c cs ih =>
    intro s hinv hadm
    obtain ⟨ha, hrest⟩ := hadm
    unfold run
    cases hn : next D P s c with
    | error e => simp [TraceOK]
    | ok r =>
      cases r with
      | none => simp [TraceOK]
      | some p =>
        obtain ⟨s', it⟩ := p
        have hinv' := inv_step hwf hinv ha hn
        obtain ⟨hz, _, hc, hnn, _⟩ := iteration_counts hwf hinv ha hn
        simp only [TraceOK]
        refine ⟨⟨hinv', ?_, ?_⟩, ih s' hinv' (hrest s' it hn)⟩
        · rw [hz]; exact hc
        · rw [hz]; exact hnn

/-- A run in which two sequences are active never panics (Oops with at least two sequences; Zoops
    with at least two seeds): it stops only at the end of the choice stream or at convergence. -/
theorem run_never_panics (hwf : D.WF K) (hL : Longer D P.w) : ∀ (cs : List Choice) (s : State K),
    Inv D P.w s → TwoActive D s → AdmRun D P s cs → ∀ e, (run D P s cs).2 ≠ .panic e := by
  intro cs
  induction cs with
  | nil => intro s _ _ _ e h; simp [run] at h
  | cons c cs ih =>
    intro s hinv h2 hadm e h
    obtain ⟨ha, hrest⟩ := hadm
    unfold run at h
    cases hc : s.converged with
    | true =>
      have : next D P s c = .ok none := by unfold next; rw [if_pos hc]
      rw [this] at h; simp at h
    | false =>
      obtain ⟨s', it, hn, h2'⟩ := step_ok_of_two_active hwf hL hinv ha hc h2
      rw [hn] at h
      exact ih s' (inv_step hwf hinv ha hn) h2' (hrest s' it hn) e (by simpa using h)

/-! ### determinism -/

/-- the whole observable trace of a sampler: the state after `_new`, then `run` -/
def trace (D : Data) (P : Params) (ic : InitChoice) (cs : List Choice) :
    R (State K × List (State K × Iteration K) × Stop) :=
  match init D P ic with
  | .error e => .error e
  | .ok s => .ok (s, run D P s cs)

/-- The trace is a function of (data, parameters, choice stream): two runs that make the same
    draws produce identical traces — there is no other state (no hidden counter, no iteration-order
    dependence) in the model. -/
theorem trace_deterministic (D D' : Data) (P P' : Params) (ic ic' : InitChoice)
    (cs cs' : List Choice) (hD : D = D') (hP : P = P') (hic : ic = ic') (hcs : cs = cs') :
    trace (K := K) D P ic cs = trace D' P' ic' cs' := by
  subst hD; subst hP; subst hic; subst hcs; rfl

/-- … and step `k` depends on the first `k` choices only: extending the choice stream extends
    the trace. -/
theorem run_prefix : ∀ (cs ds : List Choice) (s : State K),
    (run D P s cs).1 <+: (run D P s (cs ++ ds)).1 := by
  intro cs
  induction cs with
  | nil => intro ds s; simp [run]
  | cons c cs ih =>
    intro ds s
    rw [List.cons_append]
    unfold run
    cases hn : next D P s c with
    | error e => simp
    | ok r =>
      cases r with
      | none => simp
      | some p =>
        obtain ⟨s', it⟩ := p
        simp only []
        exact (List.prefix_cons_inj _).mpr (ih ds s')

/-! ### the property in the words of the public API, for whole programs -/

/-- Every state of every run reports an alignment (`active_sequences`, `active_starts`) from which
    its count matrix and its background counts are recomputed exactly, with every window inside
    its sequence. -/
theorem reported_run (hwf : D.WF K) (cs : List Choice) (s : State K) (hinv : Inv D P.w s)
    (hadm : AdmRun D P s cs) : ∀ x, x ∈ (run D P s cs).1 → Reported D P.w x.1 :=
  fun x hx => reported_of_inv (inv_run hwf cs s hinv hadm x hx)

/-- The whole sampler, from `SamplerData::new` on: for every dataset over the alphabet (striped in
    `C > 0` columns), all parameters, all admissible draws in `_new` and all admissible choice
    streams, the state after `_new` and after every step equals the recomputation from the
    alignment it reports, and every iteration reports the alignment without its held-out sequence. -/
theorem sampler_correct (C : Nat) (seqs : Array (Array Nat)) (wraps : Array Nat) (P : Params)
    (ic : InitChoice) (cs : List Choice) (hC : 0 < C)
    (hsym : ∀ i, i < seqs.size → ∀ k, k < (seqs.getD i #[]).size → (seqs.getD i #[]).getD k 0 < K) :
    ∃ D, mkData K C seqs wraps = .ok D ∧ D.seqs = seqs ∧
      (InitAdm D P ic → ∀ s0 : State K, init D P ic = .ok s0 → AdmRun D P s0 cs →
        Reported D P.w s0 ∧ TraceOK D P s0 (run D P s0 cs).1 ∧
        ∀ x, x ∈ (run D P s0 cs).1 → Reported D P.w x.1) := by
  obtain ⟨D, h1, h2, _, hwf⟩ := mkData_wf K C seqs wraps hC hsym
  refine ⟨D, h1, h2, ?_⟩
  intro hadm s0 hs0 hrun
  have hinv := inv_init hwf hadm hs0
  exact ⟨reported_of_inv hinv, trace_ok hwf cs s0 hinv hrun, reported_run hwf cs s0 hinv hrun⟩

/-- Oops mode with at least two sequences, all longer than the width: the run never panics.
    (Zoops mode: the same from any state with two active sequences, `run_never_panics`.) -/
theorem oops_never_panics {ic : InitChoice} {s0 : State K} (hwf : D.WF K) (hL : Longer D P.w)
    (hoops : P.zoops = false) (hn : 2 ≤ D.n) (hadm : InitAdm D P ic) (hs0 : init D P ic = .ok s0)
    (cs : List Choice) (hrun : AdmRun D P s0 cs) : ∀ e, (run D P s0 cs).2 ≠ .panic e := by
  have hinv := inv_init hwf hadm hs0
  rcases init_spec (K := K) hwf hadm with ⟨_, he⟩ | ⟨_, s', hs', _, _, _, _, hall, _⟩
  · rw [he] at hs0; cases hs0
  · rw [hs'] at hs0; cases hs0
    exact run_never_panics hwf hL cs s0 hinv
      ⟨0, 1, by omega, by omega, by omega, hall hoops 0 (by omega), hall hoops 1 (by omega)⟩ hrun

/-- Zoops mode with at least two (distinct) seeds. -/
theorem zoops_never_panics {ic : InitChoice} {s0 : State K} (hwf : D.WF K) (hL : Longer D P.w)
    (hz : P.zoops = true) (hseeds : 2 ≤ min P.initial D.n) (hadm : InitAdm D P ic)
    (hs0 : init D P ic = .ok s0) (cs : List Choice) (hrun : AdmRun D P s0 cs) :
    ∀ e, (run D P s0 cs).2 ≠ .panic e := by
  have hinv := inv_init hwf hadm hs0
  obtain ⟨hlt, hnd, hlen⟩ := hadm.2.2 hz
  rcases init_spec (K := K) hwf hadm with ⟨_, he⟩ | ⟨_, s', hs', _, _, _, _, _, hact⟩
  · rw [he] at hs0; cases hs0
  · rw [hs'] at hs0; cases hs0
    -- two distinct seeds
    match hsd : ic.seeds, hlen, hnd, hlt, hact hz with
    | [], hlen, _, _, _ => simp at hlen; omega
    | [_], hlen, _, _, _ => simp at hlen; omega
    | a :: b :: rest, _, hnd, hlt, hact =>
      have hab : a ≠ b := by
        intro e; rw [e] at hnd; simp at hnd
      exact run_never_panics hwf hL cs s0 hinv
        ⟨a, b, hlt a (by simp), hlt b (by simp), hab, hact a (by simp), hact b (by simp)⟩ hrun

/-! ### non-vacuity: the hypotheses are satisfiable and the conclusions are about real runs -/

section Example

/-- a decidable check of `AdmRun` -/
def admRunB (D : Data) (P : Params) : State K → List Choice → Bool
  | _, [] => true
  | s, c :: cs =>
    decide (Adm D P s c) &&
      (match next D P s c with
       | .ok (some (s', _)) => admRunB D P s' cs
       | _ => true)

theorem admRun_of_admRunB : ∀ (cs : List Choice) (s : State K), admRunB D P s cs = true → AdmRun D P s cs := by
  intro cs
  induction cs with
  | nil => intro _ _; trivial
  | cons c cs ih =>
    intro s h
    unfold admRunB at h
    rw [Bool.and_eq_true] at h
    refine ⟨of_decide_eq_true h.1, ?_⟩
    intro s' it hn
    have h2 := h.2
    rw [hn] at h2
    exact ih s' h2

/-- three DNA sequences (`A C T G N` = `0 1 2 3 4`), all longer than the width 3 -/
def exData : Data :=
  ⟨#[#[0,1,2,3,0,1], #[1,1,2,0,4], #[3,2,1,0,0,2,1]],
   #[#[2,2,1,1,0], #[1,2,1,0,1], #[2,2,2,1,0]], #[3,3,3]⟩
def exOops : Params := { w := 3, zoops := false, initial := 0, inertia := 0, patience := 0 }
def exZoops : Params := { w := 3, zoops := true, initial := 2, inertia := 1, patience := 3 }
def exIc : InitChoice := { starts := #[1, 0, 4], seeds := [] }
def exIcZ : InitChoice := { starts := #[1, 0, 4], seeds := [2, 0] }
/-- hold out 1 and move it, hold out 0 with a failed `WeightedIndex::new`, hold out 2 and move it -/
def exChoices : List Choice := [⟨1, some 2, false⟩, ⟨0, none, false⟩, ⟨2, some 0, false⟩]
/-- Zoops: a seed, then the inactive sequence 1 — recruited —, then discarded would be `true` -/
def exChoicesZ : List Choice := [⟨2, some 3, false⟩, ⟨1, some 1, false⟩, ⟨1, some 0, false⟩, ⟨0, none, false⟩]

/-- the cached counts of `exData` are what `SamplerData::new` computes (4 columns) -/
example : (mkData 5 4 exData.seqs exData.wraps).toOption.map (·.counts) = some exData.counts := by
  decide +kernel

theorem exData_wf : exData.WF 5 := by
  constructor
  · decide +kernel
  · decide +kernel
  · decide +kernel
  · decide +kernel

example : Longer exData exOops.w := by unfold Longer; decide +kernel
example : InitAdm exData exOops exIc := by decide +kernel
example : InitAdm exData exZoops exIcZ := by decide +kernel

/-- one Boolean that evaluates a whole run of the model -/
def exCheck (P : Params) (ic : InitChoice) (cs : List Choice) (starts : List (List Nat))
    (actives : List (List Nat)) : Bool :=
  match init (K := 5) exData P ic with
  | .error _ => false
  | .ok s0 =>
    admRunB exData P s0 cs && (run exData P s0 cs).1.length == cs.length &&
    ((activeSequences s0).length ≥ 2) &&
    ((run exData P s0 cs).1.map (fun x => x.1.starts.toList) == starts) &&
    ((run exData P s0 cs).1.map (fun x => activeSequences x.1) == actives)

theorem exCheck_sound {P : Params} {ic : InitChoice} {cs : List Choice} {starts actives : List (List Nat)}
    (h : exCheck P ic cs starts actives = true) :
    ∃ s0 : State 5, init exData P ic = .ok s0 ∧ AdmRun exData P s0 cs ∧
      (run exData P s0 cs).1.length = cs.length ∧
      (run exData P s0 cs).1.map (fun x => x.1.starts.toList) = starts ∧
      (run exData P s0 cs).1.map (fun x => activeSequences x.1) = actives := by
  unfold exCheck at h
  cases hi : init (K := 5) exData P ic with
  | error e => rw [hi] at h; cases h
  | ok s0 =>
    rw [hi] at h
    simp only [Bool.and_eq_true, beq_iff_eq, decide_eq_true_eq] at h
    obtain ⟨⟨⟨⟨h1, h2⟩, _⟩, h4⟩, h5⟩ := h
    exact ⟨s0, rfl, admRun_of_admRunB _ _ h1, h2, h4, h5⟩

/-- Oops: `inv_init`, `inv_run`, `trace_ok`, `oops_never_panics` apply to a run of three steps in
    which two starts change (and one `WeightedIndex::new` fails) -/
example : ∃ s0 : State 5, init exData exOops exIc = .ok s0 ∧ AdmRun exData exOops s0 exChoices ∧
    (run exData exOops s0 exChoices).1.length = 3 ∧
    (run exData exOops s0 exChoices).1.map (fun x => x.1.starts.toList) =
      [[1, 2, 4], [1, 2, 4], [1, 2, 0]] ∧
    (run exData exOops s0 exChoices).1.map (fun x => activeSequences x.1) =
      [[0, 1, 2], [0, 1, 2], [0, 1, 2]] :=
  exCheck_sound (by decide +kernel)

/-- Zoops with two seeds: sequence 1 is recruited at the second step; `zoops_never_panics` applies -/
example : ∃ s0 : State 5, init exData exZoops exIcZ = .ok s0 ∧ AdmRun exData exZoops s0 exChoicesZ ∧
    (run exData exZoops s0 exChoicesZ).1.length = 4 ∧
    (run exData exZoops s0 exChoicesZ).1.map (fun x => x.1.starts.toList) =
      [[1, 0, 3], [1, 1, 3], [1, 0, 3], [1, 0, 3]] ∧
    (run exData exZoops s0 exChoicesZ).1.map (fun x => activeSequences x.1) =
      [[0, 2], [0, 1, 2], [0, 1, 2], [0, 1, 2]] :=
  exCheck_sound (by decide +kernel)

/-- the excluded point: a single Oops sequence — the step panics, exactly as `step_panics_iff` and
    `nothingLeft_iff` say (nothing is left once the only sequence is held out) -/
example : (match init (K := 5) ⟨#[#[0,1,2,3]], #[#[1,1,1,1,0]], #[3]⟩ exOops ⟨#[0], []⟩ with
    | .ok s0 => (run ⟨#[#[0,1,2,3]], #[#[1,1,1,1,0]], #[3]⟩ exOops s0 [⟨0, none, false⟩]).2
    | .error e => .panic e) = .panic "background-empty" := by decide +kernel

end Example

end C16
end LMV
