import LMV.Model.Sampler

namespace LMV
namespace C16

end C16
end LMV
