/-
  LMV.Mem.Api — which unsafe kernel a safe public call runs, per backend / dispatcher arm, and the
  access lists of the composite entry points (scanner, sampler, dense matrix helpers).

  mirrors: lightmotif/src/pli/mod.rs (impls of Encode / Score / Maximum / Stripe for
           Pipeline<A, Sse2>, Pipeline<A, Avx2>), lightmotif/src/pli/dispatch.rs (the arms of
           Pipeline<A, Dispatch>), lightmotif/src/scan.rs::Scanner::{next, max} (block loop),
           lightmotif/src/sampler.rs::Sampler::update_holdout
  Core Lean only.
-/
import LMV.Mem.Kernels

namespace LMV
namespace Mem

inductive Backend | generic | sse2 | avx2 | dispGeneric | dispSse2 | dispAvx2
deriving DecidableEq, Repr

def Backend.ofString (s : String) : Backend :=
  if s == "sse2" then .sse2 else if s == "avx2" then .avx2
  else if s == "disp-generic" then .dispGeneric else if s == "disp-sse2" then .dispSse2
  else if s == "disp-avx2" then .dispAvx2 else .generic

/-- one kernel execution: the sizes of the buffers it runs on and its accesses -/
abbrev Run := Sizes × List Access

def Run.Safe (r : Run) : Prop := Mem.Safe r.1 r.2

/-- the first offending access of a list of runs, with the size of its buffer -/
def firstBadRun : List Run → Option (Access × Nat)
  | [] => none
  | r :: rs => match firstBad r.1 r.2 with
    | some a => some (a, r.1 a.buf)
    | none => firstBadRun rs

def rangeCheckOf (wrapper : String) : Bool :=
  match Gen.MemOps.rangeChecks.find? (·.1 == wrapper) with
  | some p => p.2
  | none => false

/-! ### encode -/

/-- `encode_into` of `l` bytes into `l` symbols (`encode_raw` / `encode` allocate `l` symbols):
    `Pipeline<A, Avx2>` and the dispatcher's AVX2 arm run the AVX2 kernel, `Pipeline<A, Sse2>` the
    SSE2 kernel; the dispatcher's SSE2 arm and everything else the safe generic loop -/
def encodeRuns (b : Backend) (l : Nat) : List Run :=
  match b with
  | .avx2 | .dispAvx2 => [(encodeSizes l l 0, encodeAvx2 l l)]
  | .sse2 => [(encodeSizes l l 16, encodeSse2 l l)]
  | _ => []

/-! ### stripe -/

def stripeRuns (b : Backend) (l : Nat) : List Run :=
  match b with
  | .avx2 | .dispAvx2 => [(stripeSizes l, stripeAvx2 l)]
  | _ => []

/-! ### score -/

/-- `score_rows_into(pssm, seq, a..b, scores)` with 32-bit float scores -/
def scoreF32Runs (b : Backend) (C K M L Rm W a₀ b₀ : Nat) : List Run :=
  match b with
  | .avx2 | .dispAvx2 =>
    if K ≤ 8 then
      [(scoreSizes 32 K 4 M Rm (b₀ - a₀),
        scoreAvx2Call (rangeCheckOf "score_f32_rows_into_permute") Gen.MemOps.scoreF32Avx2Permute K 4 M L Rm W a₀ b₀)]
    else
      [(scoreSizes 32 K 4 M Rm (b₀ - a₀),
        scoreAvx2Call (rangeCheckOf "score_f32_rows_into_gather") Gen.MemOps.scoreF32Avx2Gather K 4 M L Rm W a₀ b₀)]
  | .sse2 | .dispSse2 =>
    [(scoreSizes C K 4 M Rm (b₀ - a₀),
      scoreSse2Call (rangeCheckOf "score_rows_into") Gen.MemOps.scoreSse2 C K M L Rm W a₀ b₀)]
  | _ => []

/-- the same with 8-bit scores: a kernel exists for AVX2 only (`Score<u8, Dna, U32>`) -/
def scoreU8Runs (b : Backend) (K M L Rm W a₀ b₀ : Nat) : List Run :=
  match b with
  | .avx2 | .dispAvx2 =>
    [(scoreSizes 32 K 1 M Rm (b₀ - a₀),
      scoreAvx2Call (rangeCheckOf "score_u8_rows_into_shuffle") Gen.MemOps.scoreU8Avx2Shuffle K 1 M L Rm W a₀ b₀)]
  | _ => []

/-! ### max / argmax -/

inductive Which | max | argmax | threshold
deriving DecidableEq, Repr

def maxF32Runs (b : Backend) (w : Which) (C rows : Nat) : List Run :=
  match b, w with
  | .avx2, .argmax | .dispAvx2, .argmax => [(reduceSizes 32 4 rows 128, reduceAvx2 Gen.MemOps.argmaxF32Avx2 4 4 rows)]
  | .avx2, .max | .dispAvx2, .max => [(reduceSizes 32 4 rows 32, reduceAvx2 Gen.MemOps.maxF32Avx2 4 4 rows)]
  -- `Pipeline<A, Sse2>`: `argmax` is the kernel, `max` the trait default built on `argmax`;
  -- the dispatcher's SSE2 arm has the kernel for `argmax` only
  | .sse2, .argmax | .sse2, .max | .dispSse2, .argmax =>
    [(reduceSizes C 4 rows (4 * C), argmaxSse2 Gen.MemOps.argmaxSse2 C rows)]
  | _, _ => []

def maxU8Runs (b : Backend) (w : Which) (rows : Nat) : List Run :=
  match b, w with
  | .avx2, .argmax | .dispAvx2, .argmax => [(reduceSizes 32 1 rows 64, reduceAvx2 Gen.MemOps.argmaxU8Avx2 1 2 rows)]
  | .avx2, .max | .dispAvx2, .max => [(reduceSizes 32 1 rows 32, reduceAvx2 Gen.MemOps.maxU8Avx2 1 1 rows)]
  | _, _ => []

/-! ### scanner: `while row < matrix.rows() { end = min(row + block, seq rows); score_rows_into(dm,
    seq, row..end, dscores); max(dscores).unwrap(); threshold; row += block }` — every block that can
    be reached (a superset of the blocks one `collect` / `next`+`max` executes) -/

def scanBlocks (b : Backend) (K M L Rm W block : Nat) : List Run :=
  (List.range (Rm / block + 1)).flatMap fun n =>
    if n * block < Rm then
      scoreU8Runs b K M L Rm W (n * block) (min (n * block + block) (Rm - W)) ++
      (if L < M ∨ min (n * block + block) (Rm - W) ≤ n * block then []
       else maxU8Runs b .max (min (n * block + block) (Rm - W) - n * block))
    else []

def scanRuns (b : Backend) (K M L Rm W block : Nat) : List Run :=
  if block = 0 then [] else scanBlocks b K M L Rm W block

/-! ### sampler: every step scores the held-out sequence over all its rows with the current motif of
    width `w` (`score_into`); all sequences have length `L` and `w` wrap rows -/

def sampleRuns (b : Backend) (K L w steps : Nat) : List Run :=
  (List.range steps).flatMap fun _ =>
    scoreF32Runs b 32 K w L ((L + 31) / 32 + w) w 0 ((L + 31) / 32)

/-! ### dense matrix helper of the harness: from_rows(rows); fill; resize(rows+3); fill; clone;
    resize(rows/2); fill -/

def denseRuns (C size rows : Nat) : List Run :=
  [(matSizes C size rows, fill C size rows),
   (matSizes C size (rows + 3), fill C size (rows + 3)),
   (matSizes C size (rows / 2), fill C size (rows / 2))]

end Mem
end LMV
