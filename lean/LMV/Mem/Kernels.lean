/-
  LMV.Mem.Kernels — memory-access models of the unsafe kernels (C06).

  For each `unsafe` kernel: a function from the SIZES of its arguments to the list of accesses it
  performs, written from the kernel's loop structure (mirrored by hand) over the tables of memory
  intrinsics regenerated from the source (LMV.Gen.MemOps, LMV.Gen.Avx2Stripe), and the buffer
  sizes given by C19's layout (`Dense.rowBytes`, rows `align(32)`).  The safe wrappers' checks are
  mirrored as guards: no access happens when a guard rejects (the wrapper panics or returns early).

  mirrors: lightmotif/src/pli/platform/avx2.rs::{encode_into_avx2, score_f32_avx2_permute,
           score_f32_avx2_gather, score_u8_avx2_shuffle, argmax_f32_avx2, max_f32_avx2,
           argmax_u8_avx2, max_u8_avx2, stripe_avx2, Avx2::score_*_rows_into*},
           lightmotif/src/pli/platform/sse2.rs::{encode_into_sse2, score_sse2, argmax_sse2,
           Sse2::score_rows_into}, lightmotif/src/dense.rs::{fill, ravel_mut, uninitialized, from_rows},
           lightmotif/src/pli/mod.rs::Encode::encode_raw
  Core Lean only.
-/
import LMV.Mem.Access
import LMV.Model.Dense
import LMV.Gen.MemOps
import LMV.Gen.Avx2Stripe

namespace LMV
namespace Mem

/-- `repr(align(32))` of `dense.rs::Row` on x86-64 -/
def ALIGN : Nat := 32

/-- `size_of::<Row<T, C>>()` for elements of `size` bytes -/
def rowB (C size : Nat) : Nat := Dense.rowBytes C size ALIGN

/-! ### reading the extracted tables -/

/-- the calls through pointer variable `ptr` at loop depth `depth` -/
def sel (tbl : List MemCall) (ptr : String) (depth : Nat) : List MemCall :=
  tbl.filter fun c => c.ptr == ptr && c.depth == depth

/-- every call of the table belongs to one of the (pointer, depth) classes the model places -/
def handled (tbl : List MemCall) (classes : List (String × Nat)) : Bool :=
  tbl.all fun c => classes.contains (c.ptr, c.depth)

/-- a call the model does not place becomes an access that is never in bounds -/
def unhandled (tbl : List MemCall) (classes : List (String × Nat)) : List Access :=
  if handled tbl classes then [] else [Access.unknown]

/-- the accesses of one call whose pointer designates byte `base` of `buf` (elements of `esz`
    bytes).  `_mm256_i32gather_ps(ptr, idx, 4)` reads the 4 bytes at `ptr + 4·x` for the lane
    indices `x`, which are zero-extended symbols of the sequence, i.e. any `x < K`; a call with a
    symbolic offset sits in the loop `for k in 0..A::K::USIZE` and is executed for every `k < K`. -/
def MemCall.accesses (c : MemCall) (K : Nat) (buf : Buf) (base esz : Nat) : List Access :=
  if c.intr = "_mm256_i32gather_ps" then (List.range K).map fun x => ⟨buf, base + x * 4, 4, .read, 1⟩
  else if c.sym = "" then [c.access buf base esz]
  else (List.range K).map fun x => (MemCall.mk c.intr c.ptr x "" c.depth).access buf base esz

/-- all calls of one class, placed at `base` -/
def place (tbl : List MemCall) (ptr : String) (depth K : Nat) (buf : Buf) (base esz : Nat) : List Access :=
  (sel tbl ptr depth).flatMap fun c => c.accesses K buf base esz

/-! ### encoders -/

/-- the block loop `while i + STRIDE <= l { load STRIDE bytes at src+i; store STRIDE bytes at dst+i;
    src_ptr, dst_ptr, i += STRIDE }` (`<` for SSE2) -/
def encodeLoop (tbl : List MemCall) (stride : Nat) (strict : Bool) (l : Nat) : Nat → Nat → List Access
  | 0, _ => []
  | fuel + 1, i =>
    if (if strict then i + stride < l else i + stride ≤ l) then
      place tbl "src_ptr" 1 0 .text i 1 ++ place tbl "dst_ptr" 1 0 .dst i 1 ++
        encodeLoop tbl stride strict l fuel (i + stride)
    else []

/-- `encode_into_avx2` / `encode_into_sse2` on a text of `lsrc` bytes into `ldst` symbols:
    `assert_eq!(seq.len(), dst.len())`, the block loop, the error flag spilled to a stack array
    (SSE2), then safe code only (rescan on error, generic tail) -/
def encode (tbl : List MemCall) (stride : Nat) (strict : Bool) (lsrc ldst : Nat) : List Access :=
  if lsrc = ldst then
    unhandled tbl [("src_ptr", 1), ("dst_ptr", 1), ("x", 0)] ++
    encodeLoop tbl stride strict lsrc (lsrc + 1) 0 ++ place tbl "x" 0 0 .stack 0 1
  else []

def encodeSizes (lsrc ldst stack : Nat) : Sizes
  | .text => lsrc | .dst => ldst | .stack => stack | _ => 0

def encodeAvx2 (lsrc ldst : Nat) : List Access :=
  encode Gen.MemOps.encodeAvx2 Gen.MemOps.encodeAvx2Stride Gen.MemOps.encodeAvx2Strict lsrc ldst

/-- the SSE2 encoder spills its error flag to `x: [u8; 16]` -/
def encodeSse2 (lsrc ldst : Nat) : List Access :=
  encode Gen.MemOps.encodeSse2 Gen.MemOps.encodeSse2Stride Gen.MemOps.encodeSse2Strict lsrc ldst

/-! ### striping -/

/-- second conjunct of the block loop condition of `stripe_avx2` (absent before the C06 repair) -/
def stripeGuardOk (guard : Option Nat) (length stride i : Nat) : Bool :=
  match guard with
  | some g => decide (g * stride + i + 32 ≤ length)
  | none => true

/-- the block loop of `stripe_avx2`: `i` the row counter, `so` the byte offset of `src` in the symbol
    buffer, `oo` the byte offset of `out` in the matrix; 32 unaligned loads at
    `src + mul·src_stride`, 32 aligned stores at `out + mul·out_stride`, then
    `out += outInc·out_stride; src += srcInc; i += 32` -/
def stripeLoop (guard : Option Nat) (strict : Bool) (length stride outStride : Nat) :
    Nat → Nat → Nat → Nat → List Access
  | 0, _, _, _ => []
  | fuel + 1, i, so, oo =>
    if (if strict then i + 32 < stride else i + 32 ≤ stride) ∧ stripeGuardOk guard length stride i = true then
      (Gen.Avx2Stripe.loads.map fun p => (⟨.sym, so + p.2 * stride, 32, .read, 1⟩ : Access)) ++
      (Gen.Avx2Stripe.stores.map fun p => (⟨.seqmat, oo + p.1 * outStride, 32, .write, 32⟩ : Access)) ++
      stripeLoop guard strict length stride outStride fuel (i + 32) (so + Gen.Avx2Stripe.srcInc)
        (oo + Gen.Avx2Stripe.outInc * outStride)
    else []

/-- `stripe_avx2` on `L` symbols: `src_stride = ⌈L/32⌉`, the matrix is resized to `src_stride` rows,
    early return on `L = 0`; after the block loop only safe code runs (scalar tail, wildcard fill) -/
def stripeAvx2With (guard : Option Nat) (L : Nat) : List Access :=
  if L = 0 then []
  else stripeLoop guard Gen.Avx2Stripe.loopStrict L ((L + 31) / 32) (Dense.stride 32 1 ALIGN)
    ((L + 31) / 32 + 1) 0 0 0

/-- the kernel as it is in the source (loop guard regenerated from it) -/
def stripeAvx2 (L : Nat) : List Access := stripeAvx2With Gen.Avx2Stripe.srcGuard L

def stripeSizes (L : Nat) : Sizes
  | .sym => L | .seqmat => (L + 31) / 32 * rowB 32 1 | _ => 0

/-! ### scoring -/

/-- `score_f32_avx2_permute` / `score_f32_avx2_gather` / `score_u8_avx2_shuffle` over rows `a..b`:
    `for i in rows { seqptr = row i; pssmptr = row 0; for _ in 0..M { load seq row; load / gather pssm
    row; seqptr, pssmptr += one row }; store 32 scores at rowptr; rowptr += one row }` -/
def scoreAvx2 (tbl : List MemCall) (K esz M a b : Nat) : List Access :=
  unhandled tbl [("seqptr", 2), ("pssmptr", 2), ("rowptr", 1)] ++
  (List.range (b - a)).flatMap fun k =>
    ((List.range M).flatMap fun j =>
      place tbl "seqptr" 2 K .seqmat ((a + k + j) * rowB 32 1) 1 ++
      place tbl "pssmptr" 2 K .pssm (j * rowB K esz) esz) ++
    place tbl "rowptr" 1 K .scores (k * rowB 32 esz) esz

/-- `score_sse2` for `C` columns: one pass per 16 columns -/
def scoreSse2 (tbl : List MemCall) (C K M a b : Nat) : List Access :=
  unhandled tbl [("dataptr", 3), ("pssmptr", 4), ("rowptr", 2)] ++
  (List.range (C / 16)).flatMap fun q =>
    (List.range (b - a)).flatMap fun k =>
      ((List.range M).flatMap fun j =>
        place tbl "dataptr" 3 K .seqmat ((a + k + j) * rowB C 1 + q * 16) 1 ++
        place tbl "pssmptr" 4 K .pssm (j * rowB K 4) 4) ++
      place tbl "rowptr" 2 K .scores (k * rowB C 4 + q * 16 * 4) 4

/-- sizes of the three matrices of a scoring call: the sequence matrix has `Rm` rows (wrap rows
    included), the scoring matrix `M`, the score matrix was resized to `rows` -/
def scoreSizes (C K esz M Rm rows : Nat) : Sizes
  | .seqmat => Rm * rowB C 1 | .pssm => M * rowB K esz | .scores => rows * rowB C esz | _ => 0

/-- the checks of `Avx2::score_*_rows_into*` / `Sse2::score_rows_into` before the kernel runs:
    `wrap < M - 1` panics (so does `M = 0`: `0 - 1` overflows or wraps to `usize::MAX`),
    `len < M || rows.is_empty()` returns early, and — `rangeCheck`, the C06 repair —
    `rows.end > matrix.rows() || matrix.rows() - rows.end < M - 1` panics -/
def scoreGuard (rangeCheck : Bool) (M L Rm W a b : Nat) : Bool :=
  decide (1 ≤ M) && decide (M - 1 ≤ W) && !(decide (L < M) || decide (b ≤ a)) &&
    (!rangeCheck || (decide (b ≤ Rm) && decide (M - 1 ≤ Rm - b)))

/-- the rows the kernel loop really visits: `seq.matrix()[i]` is a checked index, the loop panics at
    the first `i ≥ Rm` (before touching anything in that iteration) -/
def visited (Rm b : Nat) : Nat := min b Rm

/-- a safe scoring call on the AVX2 backend -/
def scoreAvx2Call (rangeCheck : Bool) (tbl : List MemCall) (K esz M L Rm W a b : Nat) : List Access :=
  if scoreGuard rangeCheck M L Rm W a b then scoreAvx2 tbl K esz M a (visited Rm b) else []

/-- a safe scoring call on the SSE2 backend -/
def scoreSse2Call (rangeCheck : Bool) (tbl : List MemCall) (C K M L Rm W a b : Nat) : List Access :=
  if scoreGuard rangeCheck M L Rm W a b then scoreSse2 tbl C K M a (visited Rm b) else []

/-! ### maxima -/

/-- `argmax_f32_avx2`, `max_f32_avx2`, `argmax_u8_avx2`, `max_u8_avx2` on a score matrix of `rows`
    rows of 32 elements of `esz` bytes: `None` when empty; loads of row 0 before the loop (arg-max
    of f32 only), `for i in 0..rows { load row; dataptr += one row }`, then the accumulators are
    spilled to the stack array `x` (elements of `xesz` bytes) -/
def reduceAvx2 (tbl : List MemCall) (esz xesz rows : Nat) : List Access :=
  if rows = 0 then []
  else
    unhandled tbl [("dataptr", 0), ("dataptr", 1), ("x", 0)] ++
    place tbl "dataptr" 0 0 .scores 0 esz ++
    ((List.range rows).flatMap fun i => place tbl "dataptr" 1 0 .scores (i * rowB 32 esz) esz) ++
    place tbl "x" 0 0 .stack 0 xesz

def reduceSizes (C esz rows stack : Nat) : Sizes
  | .scores => rows * rowB C esz | .stack => stack | _ => 0

/-- `argmax_sse2` for `C` columns: per 16 columns, `for i in 0..rows { 4 loads; dataptr += one row }`,
    then 4 stores into `output: GenericArray<u32, C>` at `offset` -/
def argmaxSse2 (tbl : List MemCall) (C rows : Nat) : List Access :=
  if rows = 0 then []
  else
    unhandled tbl [("dataptr", 2), ("outptr", 1)] ++
    (List.range (C / 16)).flatMap fun q =>
      ((List.range rows).flatMap fun i => place tbl "dataptr" 2 0 .scores (i * rowB C 4 + q * 16 * 4) 4) ++
      place tbl "outptr" 1 0 .stack (q * 16 * 4) 4

/-! ### dense matrix -/

/-- `DenseMatrix::fill` = `ravel_mut().fill(v)`: one write per element of the raveled slice of
    `rows * stride()` elements starting at the first row -/
def fill (C size rows : Nat) : List Access :=
  (List.range (rows * Dense.stride C size ALIGN)).map fun k => ⟨.mat, k * size, size, .write, size⟩

def matSizes (C size rows : Nat) : Sizes
  | .mat => rows * rowB C size | _ => 0

end Mem
end LMV
