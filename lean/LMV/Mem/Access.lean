/-
  LMV.Mem.Access — vocabulary of the memory-access models (C06).

  An unsafe kernel is modelled by the LIST OF ACCESSES it performs, as a function of the sizes of
  its arguments only: (buffer, byte offset from the start of the buffer, width in bytes,
  read | write, alignment the instruction requires).  A buffer is the LIVE part of an allocation
  (`Vec` length × element size, or a stack array); its base address is assumed to honour the
  alignment of its element type (for `DenseMatrix` rows: `repr(align(32))`), so an access is
  aligned iff its offset is.  Core Lean only.
-/
namespace LMV
namespace Mem

/-- the buffers the kernels touch -/
inductive Buf
  | text     -- `seq: &[u8]`, the ASCII text given to an encoder
  | dst      -- `dst: &mut [A::Symbol]`, the encoder's output (1 byte per symbol)
  | sym      -- `seq: &[A::Symbol]`, the symbol buffer given to the striping kernel
  | seqmat   -- the `DenseMatrix<A::Symbol, C>` of a striped sequence (rows × rowBytes)
  | pssm     -- the `DenseMatrix<T, A::K>` of a scoring matrix
  | scores   -- the `DenseMatrix<T, C>` of a `StripedScores`
  | stack    -- the kernel's own stack array (`[u32; 32]`, `[f32; 8]`, `GenericArray<u32, C>`, …)
  | mat      -- a `DenseMatrix` being filled / raveled
deriving DecidableEq, Repr

def Buf.name : Buf → String
  | .text => "text" | .dst => "dst" | .sym => "sym" | .seqmat => "seqmat" | .pssm => "pssm"
  | .scores => "scores" | .stack => "stack" | .mat => "mat"

inductive Rw | read | write
deriving DecidableEq, Repr

structure Access where
  buf : Buf
  off : Nat
  width : Nat
  rw : Rw
  /-- alignment the instruction requires of the ADDRESS (1: none) -/
  align : Nat
deriving DecidableEq, Repr

/-- size in bytes of the live part of every buffer -/
abbrev Sizes := Buf → Nat

/-- the access lies inside its buffer and is aligned -/
def Access.InBounds (sz : Sizes) (a : Access) : Prop :=
  a.off + a.width ≤ sz a.buf ∧ 0 < a.align ∧ a.off % a.align = 0

instance (sz : Sizes) (a : Access) : Decidable (a.InBounds sz) := by
  unfold Access.InBounds; infer_instance

/-- every access of the list is in bounds and aligned -/
def Safe (sz : Sizes) (l : List Access) : Prop := ∀ a ∈ l, a.InBounds sz

instance (sz : Sizes) (l : List Access) : Decidable (Safe sz l) := by
  unfold Safe; infer_instance

/-- the first offending access, if any (what the driver prints) -/
def firstBad (sz : Sizes) (l : List Access) : Option Access :=
  l.find? fun a => !decide (a.InBounds sz)

theorem firstBad_none_iff (sz : Sizes) (l : List Access) : firstBad sz l = none ↔ Safe sz l := by
  unfold firstBad Safe
  rw [List.find?_eq_none]
  constructor
  · intro h a ha
    have := h a ha
    simpa using this
  · intro h a ha
    simpa using h a ha

theorem Safe_nil (sz : Sizes) : Safe sz [] := by intro a ha; cases ha

theorem Safe_append {sz : Sizes} {l₁ l₂ : List Access} :
    Safe sz (l₁ ++ l₂) ↔ Safe sz l₁ ∧ Safe sz l₂ := by
  unfold Safe
  constructor
  · intro h; exact ⟨fun a ha => h a (List.mem_append_left _ ha), fun a ha => h a (List.mem_append_right _ ha)⟩
  · intro h a ha
    rcases List.mem_append.mp ha with h1 | h1
    · exact h.1 a h1
    · exact h.2 a h1

/-- one memory-touching intrinsic call of a kernel, as extracted from the source: the intrinsic,
    the pointer variable of its address argument, the constant offset (in elements of the pointer's
    type) or the name of a symbolic one, the number of enclosing loops -/
structure MemCall where
  intr : String
  ptr : String
  off : Nat
  sym : String
  depth : Nat
deriving DecidableEq, Repr

/-- a pointer initialisation / advance statement of a kernel (expression text, loop depth) -/
structure PtrStep where
  ptr : String
  expr : String
  depth : Nat
deriving DecidableEq, Repr

/-- what an intrinsic does to memory: (width in bytes, required alignment, read | write); from the
    Intel intrinsics guide.  `none`: not a plain load/store (the gather is modelled separately). -/
def intrinsic (name : String) : Option (Nat × Nat × Rw) :=
  if name = "_mm256_loadu_si256" then some (32, 1, .read)
  else if name = "_mm256_storeu_si256" then some (32, 1, .write)
  else if name = "_mm256_storeu_ps" then some (32, 1, .write)
  else if name = "_mm256_load_si256" then some (32, 32, .read)
  else if name = "_mm256_load_ps" then some (32, 32, .read)
  else if name = "_mm256_stream_si256" then some (32, 32, .write)
  else if name = "_mm256_stream_ps" then some (32, 32, .write)
  else if name = "_mm_loadu_si128" then some (16, 1, .read)
  else if name = "_mm_storeu_si128" then some (16, 1, .write)
  else if name = "_mm_load_si128" then some (16, 16, .read)
  else if name = "_mm_load_ps" then some (16, 16, .read)
  else if name = "_mm_stream_ps" then some (16, 16, .write)
  else if name = "_mm_load1_ps" then some (4, 4, .read)
  else none

/-- an access that is never `InBounds` (alignment 0): what a call the model does not understand
    turns into, so that an unknown intrinsic in a regenerated table breaks the theorems instead of
    vanishing -/
def Access.unknown : Access := ⟨.stack, 0, 0, .read, 0⟩

/-- the access of one extracted call, given the buffer and byte offset its pointer designates and
    the size of the pointer's element type -/
def MemCall.access (c : MemCall) (buf : Buf) (base esz : Nat) : Access :=
  match intrinsic c.intr with
  | some (w, al, rw) => ⟨buf, base + c.off * esz, w, rw, al⟩
  | none => Access.unknown

end Mem
end LMV
