/-
  LMV.Isa.Shuffle — semantics of the data-rearranging AVX2/SSE2 intrinsics through their
  source-index maps (transcribed from Intel's pseudo-code; validated against the CPU by
  `lmv-harness isa` + the driver, DESIGN.md §3.3).

  A 256-bit register is 32 byte positions.  A two-operand rearrangement is described by
  `src : Nat → Side × Nat` ("destination byte i comes from byte k of operand a|b"), so that on any
  carrier type `apply src a b i = (if side = a then a else b) k` — no law about the data is used.
-/
namespace LMV.Isa

inductive Side | a | b | zero
deriving DecidableEq, Repr

abbrev Src := Side × Nat

/-- `_mm256_unpack{lo,hi}_epi{8,16,32,64}` with element size `e` bytes: per 128-bit lane, interleave
    the elements of the low (high) half of `a` and `b`. -/
def unpack (e : Nat) (hi : Bool) (i : Nat) : Src :=
  let lane := i / 16
  let r := i % 16
  let q := r / e          -- destination element within the lane
  let t := r % e          -- byte within the element
  let k := q / 2          -- source element within the half
  let off := 16 * lane + (if hi then 8 else 0) + k * e + t
  (if q % 2 = 0 then Side.a else Side.b, off)

/-- `_mm256_permute2x128_si256(a, b, imm)` / `_mm256_permute2f128_ps`: each 128-bit half of the
    result is selected by a 4-bit field: 0 → a.lo, 1 → a.hi, 2 → b.lo, 3 → b.hi, bit 3 → zero. -/
def permute2x128 (imm : Nat) (i : Nat) : Src :=
  let lane := i / 16
  let r := i % 16
  let ctl := if lane = 0 then imm % 16 else (imm / 16) % 16
  if ctl / 8 % 2 = 1 then (Side.zero, 0) else
  match ctl % 4 with
  | 0 => (Side.a, r)
  | 1 => (Side.a, 16 + r)
  | 2 => (Side.b, r)
  | _ => (Side.b, 16 + r)

/-- the rearranging two-operand intrinsics used by the kernels -/
inductive Op | unpack (e : Nat) (hi : Bool) | perm (imm : Nat)
deriving DecidableEq, Repr

def Op.src : Op → Nat → Src
  | .unpack e hi => Isa.unpack e hi
  | .perm imm => Isa.permute2x128 imm

/-- apply a source map to two operands (any carrier) -/
def apply {α : Type} (zero : α) (src : Nat → Src) (a b : Nat → α) (i : Nat) : α :=
  match src i with
  | (Side.a, k) => a k
  | (Side.b, k) => b k
  | (Side.zero, _) => zero

end LMV.Isa
