/-
  LMV.Isa.Score — semantics of the intrinsics used by the scoring kernels (avx2.rs
  score_f32_avx2_{permute,gather}, score_u8_avx2_shuffle; sse2.rs score_sse2), transcribed from
  Intel's pseudo-code.  Rearrangements are given through their source-index maps (DESIGN.md §3.1) so
  that they act on ANY carrier; arithmetic is the carrier's `add` (lane-wise), never interpreted.

  A 256-bit register is 32 byte positions or 8 dword lanes; a 128-bit register 16 bytes / 4 lanes.
-/
import LMV.Isa.Shuffle

namespace LMV.Isa

/-! ### byte shuffles -/

/-- `_mm256_shuffle_epi8(a, mask)`: destination byte `i` is zeroed when bit 7 of `mask[i]` is set,
    otherwise it is byte `mask[i] & 15` of the SAME 128-bit lane of `a` (the two halves are shuffled
    independently). `none` = zeroed. -/
def shuffleEpi8Src (mask : Nat → Nat) (i : Nat) : Option Nat :=
  if mask i % 256 / 128 = 1 then none else some (16 * (i / 16) + mask i % 16)

def shuffleEpi8 {β : Type} (zero : β) (a : Nat → β) (mask : Nat → Nat) (i : Nat) : β :=
  match shuffleEpi8Src mask i with
  | none => zero
  | some k => a k

/-- `_mm256_broadcastsi128_si256(a)`: both 128-bit lanes are copies of `a` -/
def broadcastsi128 {β : Type} (a : Nat → β) (i : Nat) : β := a (i % 16)

/-- the little-endian 32-bit element `l` of a byte vector (bytes are `< 256`) -/
def dwordLE (b : Nat → Nat) (l : Nat) : Nat :=
  b (4 * l) + 256 * b (4 * l + 1) + 65536 * b (4 * l + 2) + 16777216 * b (4 * l + 3)

/-! ### table look-ups -/

/-- `_mm256_permutevar8x32_ps(t, idx)`: lane `l` is `t[idx[l] & 7]` -/
def permutevar8x32 {α : Type} (t : Nat → α) (idx : Nat → Nat) (l : Nat) : α := t (idx l % 8)

/-- a 32-bit lane read as a signed integer -/
def sext32 (v : Nat) : Int :=
  if v % 4294967296 < 2147483648 then Int.ofNat (v % 4294967296)
  else Int.ofNat (v % 4294967296) - 4294967296

/-- `_mm256_i32gather_ps(base, vindex, scale = size_of::<f32>())`: lane `l` is the `f32` at element
    offset `vindex[l]` (signed) from `base`; `mem` is the memory seen from `base`, in elements -/
def i32gatherPs {α : Type} (mem : Int → α) (vindex : Nat → Nat) (l : Nat) : α := mem (sext32 (vindex l))

/-! ### 128-bit lane permutation on 8 `f32` lanes -/

/-- `_mm256_permute2f128_ps(a, b, imm)` on dword lanes: each half of the result is selected by a
    4-bit field of `imm`: 0 → a.lo, 1 → a.hi, 2 → b.lo, 3 → b.hi, bit 3 → zero -/
def permute2f128 (imm : Nat) (l : Nat) : Src :=
  let half := l / 4
  let r := l % 4
  let ctl := if half = 0 then imm % 16 else (imm / 16) % 16
  if ctl / 8 % 2 = 1 then (Side.zero, 0) else
  match ctl % 4 with
  | 0 => (Side.a, r)
  | 1 => (Side.a, 4 + r)
  | 2 => (Side.b, r)
  | _ => (Side.b, 4 + r)

/-! ### SSE2 -/

/-- `_mm_unpack{lo,hi}_epi8(a, b)`: the 128-bit form is lane 0 of the 256-bit one -/
def mmUnpackEpi8 (hi : Bool) (i : Nat) : Src := unpack 1 hi i

/-- `_mm_cmpeq_epi32(a, b)`, lane `l`: all-ones (`true`) when equal, all-zeros otherwise -/
def cmpeqEpi32 (a b : Nat → Nat) (l : Nat) : Bool := a l == b l

/-- `_mm_and_ps(x, mask)` with a mask lane that is all-ones or all-zeros: `x`, or the all-zero bit
    pattern (`+0.0`, the carrier's `zero`) -/
def andPsMask {α : Type} (zero : α) (x : α) (mask : Bool) : α := if mask then x else zero

end LMV.Isa
