/-
  LMV.Model.Transfac — the TRANSFAC parser and reader, `Record::to_counts`, and the renderer of
  well-formed TRANSFAC files.

  mirrors: lightmotif-io/src/transfac/parse.rs::{parse_version, parse_line, parse_alphabet,
             parse_element, parse_row, parse_tag, parse_reference_number, parse_datekind,
             parse_date, parse_reference, parse_record}
           lightmotif-io/src/transfac/reader.rs::{Reader::new, Iterator for Reader}
           lightmotif-io/src/transfac/mod.rs::Record::to_counts

  Only the fields a caller can observe are kept in the record (`id`, `accession`, `name`,
  `description`, `data`); the lines that fill the unobservable ones (dates, references, sites,
  factors, comments, copyright, `BA`) are parsed all the same, because a line that does not parse
  fails the record.
-/
import LMV.Model.Jaspar
import LMV.Model.Uniprobe
import LMV.Lemmas.Stream

namespace LMV
namespace Transfac

open Io Nom

variable {α : Type}

/-- `parse_line`: through the first '\n' (`memchr`); an input without '\n' is an error -/
def parseLine : Parser Bytes := fun i =>
  if i.contains 0x0A then .ok (after 0x0A i) (through 0x0A i) else .err

def t (a b : UInt8) : Bytes := [a, b]

/-- `preceded(tag(xx), parse_line)` -/
def tagLine (a b : UInt8) : Parser Bytes := preceded (tag (t a b)) parseLine

/-- `parse_version` -/
def parseVersion : Parser Bytes := tagLine 0x56 0x56

/-- `parse_alphabet` (repaired: `character::complete::space1`; was the streaming variant).
    `sp` is the `space1` in use, a parameter so that the defect can be stated on the model. -/
def parseAlphabetWith (sp : Parser Bytes) (A : Alphabet) : Parser (List Nat) :=
  delimited (alt (tag (t 0x50 0x4F)) (tag (t 0x50 0x30)))
    (preceded sp (sepList1 sp (symbol A))) lineEnding

def parseAlphabet (A : Alphabet) : Parser (List Nat) := parseAlphabetWith space1 A

/-- `parse_row(k)`: `delimited(u32, count(delimited(space0, float, space0), k), parse_line)` -/
def parseRow (conv : Bytes → Option α) (k : Nat) : Parser (List α) :=
  delimited u32 (count (delimited space0 (float conv) space0) k) parseLine

/-- the tags `parse_tag` accepts -/
def knownTags : List Bytes :=
  [t 0x41 0x43, t 0x42 0x41, t 0x42 0x53, t 0x42 0x46, t 0x43 0x43, t 0x43 0x4F, t 0x44 0x45,
   t 0x44 0x54, t 0x49 0x44, t 0x4E 0x41, t 0x50 0x30, t 0x50 0x4F, t 0x52 0x4E, t 0x58 0x58,
   t 0x2F 0x2F]

/-- `parse_tag`: two characters that form a known tag -/
def parseTag : Parser Bytes := fun i =>
  match takeChars 2 i with
  | .ok r tg => if knownTags.contains tg then .ok r tg else .err
  | e => e

/-- `parse_reference_number` -/
def parseReferenceNumber : Parser Unit := fun i =>
  match preceded (terminated (tag (t 0x52 0x4E)) space0) (delimited (char 0x5B) u32 (char 0x5D)) i with
  | .ok rest _ =>
    match rest with
    | 0x3B :: _ =>
      match delimited (char 0x3B) (takeTill (· = 0x2E)) (char 0x2E) rest with
      | .ok rest' _ => (parseLine rest').map fun _ => ()
      | .err => .err | .fail => .fail | .incomplete => .incomplete
    | _ => (parseLine i).map fun _ => ()
  | .err => .err | .fail => .fail | .incomplete => .incomplete

/-- `parse_datekind` -/
def parseDatekind : Parser Bytes :=
  alt (tag [0x63, 0x72, 0x65, 0x61, 0x74, 0x65, 0x64]) (tag [0x75, 0x70, 0x64, 0x61, 0x74, 0x65, 0x64])

/-- `parse_date` -/
def parseDate : Parser Unit :=
  pmap
    (pair (terminated (tag (t 0x44 0x54)) space0)
      (pair (terminated u8 (char 0x2E))
        (pair (terminated u8 (char 0x2E))
          (pair u16
            (pair space0
              (pair (delimited (char 0x28) parseDatekind (char 0x29))
                (pair (delimited (char 0x3B) (preceded space0 (takeTill (· = 0x2E))) (char 0x2E))
                  parseLine)))))))
    fun _ => ()

/-- one line of the `loop` of `parse_reference`: `RX`, `RA`, `RL`, `RT` lines continue, anything
    else ends the reference (`none`); fewer than two characters left is an error (`take(2)?`) -/
def referenceLine : Parser (Option Unit) := fun i =>
  match takeChars 2 i with
  | .ok _ tg =>
    if tg = t 0x52 0x58 then
      match preceded (preceded (terminated (tag (t 0x52 0x58)) space0)
                (terminated (tag [0x50, 0x55, 0x42, 0x4D, 0x45, 0x44, 0x3A]) space0))
              (terminated (takeTill (· = 0x2E)) (char 0x2E)) i with
      | .ok rest _ => (parseLine rest).map fun _ => some ()
      | .err => .err | .fail => .fail | .incomplete => .incomplete
    else if tg = t 0x52 0x41 ∨ tg = t 0x52 0x4C ∨ tg = t 0x52 0x54 then
      (preceded (tag tg) parseLine i).map fun _ => some ()
    else .ok i none
  | .err => .err | .fail => .fail | .incomplete => .incomplete

/-- the `loop` of `parse_reference`; every continuing line consumes input (the guard is dead code,
    cf. `Transfac.referenceLine_lt`) -/
def referenceLoop (i : Bytes) : PRes Unit :=
  match referenceLine i with
  | .ok rest (some _) => if rest.length < i.length then referenceLoop rest else .err
  | .ok rest none => .ok rest ()
  | .err => .err | .fail => .fail | .incomplete => .incomplete
termination_by i.length

/-- `parse_reference` -/
def parseReference : Parser Unit := fun i =>
  match parseReferenceNumber i with
  | .ok rest _ => referenceLoop rest
  | .err => .err | .fail => .fail | .incomplete => .incomplete

structure TRecord (α : Type) (K : Nat) where
  id : Option Bytes := none
  accession : Option Bytes := none
  name : Option Bytes := none
  description : Option Bytes := none
  data : Option (Mat α K) := none

/-- `for (s, &c) in symbols.iter().zip(count.iter()) { matrix[i][s.as_index()] = c }` -/
def fillRow {K : Nat} (m : Mat α K) (i : Nat) : List Nat → List α → Option (Mat α K)
  | s :: ss, c :: cs => if i < m.rows ∧ s < K then fillRow (m.set i s c) i ss cs else none
  | _, _ => some m

/-- `for (i, count) in counts.iter().enumerate() { … }` -/
def fillRows {K : Nat} (m : Mat α K) (symbols : List Nat) : Nat → List (List α) → Option (Mat α K)
  | _, [] => some m
  | i, r :: rs =>
    match fillRow m i symbols r with
    | some m' => fillRows m' symbols (i + 1) rs
    | none => none

/-- what one iteration of the `loop` of `parse_record` does -/
inductive Step (α : Type) (K : Nat) where
  | continue (rest : Bytes) (r : TRecord α K)
  | finish (rest : Bytes) (r : TRecord α K)
  | error (e : PRes Unit)      -- a nom error (never `ok`)
  | panic (site : String)

/-- `let (rest, v) = p(input)?; k(rest, v)`: a nom error leaves the record parser -/
def stepOf {β : Type} (K : Nat) (p : PRes β) (k : Bytes → β → Step α K) : Step α K :=
  match p with
  | .ok rest v => k rest v
  | .err => .error .err
  | .fail => .error .fail
  | .incomplete => .error .incomplete

/-- one iteration of `loop { match parse_tag(input)?.1 { … } }` -/
def recordStep (A : Alphabet) (conv : Bytes → Option α) (zero : α) (sp : Parser Bytes)
    (r : TRecord α A.K) (i : Bytes) : Step α A.K :=
  stepOf A.K (parseTag i) fun _ tg =>
    if tg = t 0x41 0x43 then
      stepOf A.K (tagLine 0x41 0x43 i) fun rest line => .continue rest { r with accession := some (trim line) }
    else if tg = t 0x42 0x41 then stepOf A.K (tagLine 0x42 0x41 i) fun rest _ => .continue rest r
    else if tg = t 0x42 0x53 then stepOf A.K (tagLine 0x42 0x53 i) fun rest _ => .continue rest r
    else if tg = t 0x42 0x46 then stepOf A.K (tagLine 0x42 0x46 i) fun rest _ => .continue rest r
    else if tg = t 0x43 0x43 then
      stepOf A.K (many1 (tagLine 0x43 0x43) i) fun rest _ => .continue rest r
    else if tg = t 0x43 0x4F then stepOf A.K (tagLine 0x43 0x4F i) fun rest _ => .continue rest r
    else if tg = t 0x44 0x45 then
      stepOf A.K (tagLine 0x44 0x45 i) fun rest line => .continue rest { r with description := some (trim line) }
    else if tg = t 0x44 0x54 then stepOf A.K (parseDate i) fun rest _ => .continue rest r
    else if tg = t 0x49 0x44 then
      stepOf A.K (tagLine 0x49 0x44 i) fun rest line => .continue rest { r with id := some (trim line) }
    else if tg = t 0x4E 0x41 then
      stepOf A.K (tagLine 0x4E 0x41 i) fun rest line => .continue rest { r with name := some (trim line) }
    else if tg = t 0x50 0x30 ∨ tg = t 0x50 0x4F then
      stepOf A.K (parseAlphabetWith sp A i) fun rest symbols =>
        stepOf A.K (many1 (parseRow conv symbols.length) rest) fun rest' counts =>
          match fillRows ((Mat.empty : Mat α A.K).resize counts.length zero) symbols 0 counts with
          | some m => .continue rest' { r with data := some m }
          | none => .panic "parse.rs: matrix[i][s.as_index()]"
    else if tg = t 0x52 0x4E then stepOf A.K (parseReference i) fun rest _ => .continue rest r
    else if tg = t 0x2F 0x2F then
      stepOf A.K (preceded (tag (t 0x2F 0x2F)) (alt parseLine eof) i) fun rest _ => .finish rest r
    else if tg = t 0x58 0x58 then stepOf A.K (parseLine i) fun rest _ => .continue rest r
    else .panic "parse.rs: unreachable!() in parse_record"

/-- result of `parse_record` -/
inductive RecRes (α : Type) (K : Nat) where
  | ok (rest : Bytes) (r : TRecord α K)
  | error (e : PRes Unit)
  | panic (site : String)

/-- the `loop` of `parse_record`; every iteration consumes input (the guard is dead code, cf.
    `Transfac.recordStep_lt`) -/
def recordLoop (A : Alphabet) (conv : Bytes → Option α) (zero : α) (sp : Parser Bytes)
    (r : TRecord α A.K) (i : Bytes) : RecRes α A.K :=
  match recordStep A conv zero sp r i with
  | .continue rest r' =>
    if rest.length < i.length then recordLoop A conv zero sp r' rest else .error .err
  | .finish rest r' => .ok rest r'
  | .error e => .error e
  | .panic site => .panic site
termination_by i.length

def parseRecordWith (A : Alphabet) (conv : Bytes → Option α) (zero : α) (sp : Parser Bytes)
    (i : Bytes) : RecRes α A.K :=
  recordLoop A conv zero sp {} i

/-- `parse_record` -/
def parseRecord (A : Alphabet) (conv : Bytes → Option α) (zero : α) (i : Bytes) : RecRes α A.K :=
  parseRecordWith A conv zero space1 i

/-! ### reader.rs -/

structure State where
  buffer : Bytes
  last : Nat
  error : Option ErrKind
  data : Bytes
  sched : List Nat

/-- `self.buffer[self.last..].starts_with("//")`; `none` is the panic of slicing a `String` past
    its end or inside a character -/
def tailStartsSlashes (buffer : Bytes) (last : Nat) : Option Bool :=
  if buffer.length < last then none
  else match buffer.drop last with
    | [] => some false
    | b :: r => if isCont b then none else some ((t 0x2F 0x2F).isPrefixOf (b :: r))

/-- the `while !end` loop of `Reader::new`: `Ok(n) => { end = buffer[last..].starts_with("//");
    if !end { last += n } }` -/
inductive Fill where
  | ok (buffer : Bytes) (last : Nat) (error : Option ErrKind) (data : Bytes) (sched : List Nat)
  | panic (site : String)

theorem readLine_lt (sched : List Nat) (data l : Bytes) (h : (readLine sched data).1 = some l)
    (hl : l ≠ []) : (readLine sched data).2.1.length < data.length := by
  obtain ⟨h1, h2⟩ := readLine_eq sched data
  rw [h2]
  rw [h1] at h
  have hl' : through 10 data = l := by
    split at h
    · exact Option.some.inj h
    · cases h
  have := congrArg List.length (through_append_after 10 data)
  have hpos : 0 < (through 10 data).length := by
    rw [hl']; exact List.length_pos_iff.mpr hl
  simp at this
  omega

def newLoop (buffer : Bytes) (last : Nat) (sched : List Nat) (data : Bytes) : Fill :=
  match h : (readLine sched data).1 with
  | none => .ok buffer last (some .io) (readLine sched data).2.1 (readLine sched data).2.2
  | some l =>
    if hl : l = [] then .ok buffer last none (readLine sched data).2.1 (readLine sched data).2.2
    else
      match tailStartsSlashes (buffer ++ l) last with
      | none => .panic "reader.rs: buffer[last..]"
      | some true => .ok (buffer ++ l) last none (readLine sched data).2.1 (readLine sched data).2.2
      | some false =>
        newLoop (buffer ++ l) (last + l.length) (readLine sched data).2.2 (readLine sched data).2.1
termination_by data.length
decreasing_by exact readLine_lt sched data l h hl

/-- `Reader::new`: read up to the first `//` line; a leading `VV` block is the version header -/
def new (sched : List Nat) (data : Bytes) : Except String State :=
  match newLoop [] 0 sched data with
  | .panic site => .error site
  | .ok buffer last error data' sched' =>
    if (t 0x56 0x56).isPrefixOf buffer then
      match parseVersion buffer with
      | .ok _ _ => .ok { buffer := [], last := 0, error := error, data := data', sched := sched' }
      | .incomplete => .error "error.rs: unreachable!() for nom::Err::Incomplete"
      | _ => .ok { buffer := buffer, last := last, error := some .nom, data := data', sched := sched' }
    else .ok { buffer := buffer, last := last, error := error, data := data', sched := sched' }

/-- the `while !end` loop of `next`: `Ok(n) => { end = buffer[last..].starts_with("//"); last += n }` -/
def nextLoop (buffer : Bytes) (last : Nat) (sched : List Nat) (data : Bytes) : Fill :=
  match h : (readLine sched data).1 with
  | none => .ok buffer last (some .io) (readLine sched data).2.1 (readLine sched data).2.2
  | some l =>
    if hl : l = [] then .ok buffer last none (readLine sched data).2.1 (readLine sched data).2.2
    else
      match tailStartsSlashes (buffer ++ l) last with
      | none => .panic "reader.rs: buffer[last..]"
      | some true =>
        .ok (buffer ++ l) (last + l.length) none (readLine sched data).2.1 (readLine sched data).2.2
      | some false =>
        nextLoop (buffer ++ l) (last + l.length) (readLine sched data).2.2 (readLine sched data).2.1
termination_by data.length
decreasing_by exact readLine_lt sched data l h hl

/-- `Iterator::next` -/
def next (A : Alphabet) (conv : Bytes → Option α) (zero : α) (s : State) :
    Outcome (TRecord α A.K) × State :=
  match s.error with
  | some e => (.error e, { s with error := none })
  | none =>
    match tailStartsSlashes s.buffer s.last with
    | none => (.panic "reader.rs: buffer[last..]", s)
    | some e0 =>
      let filled : Fill :=
        if e0 then .ok s.buffer s.last none s.data s.sched else nextLoop s.buffer s.last s.sched s.data
      match filled with
      | .panic site => (.panic site, s)
      | .ok buffer last (some k) data sched =>
        (.error k, { buffer := buffer, last := last, error := none, data := data, sched := sched })
      | .ok buffer last none data sched =>
        let s1 : State := { buffer := buffer, last := last, error := none, data := data, sched := sched }
        if buffer.isEmpty then (.done, s1)
        else
          match parseRecord A conv zero buffer with
          | .ok _ r => (.record r, { s1 with buffer := [], last := 0 })
          | .panic site => (.panic site, s1)
          | .error .incomplete => (.panic "error.rs: unreachable!() for nom::Err::Incomplete", s1)
          | .error _ => (.error .nom, s1)

/-! ### mod.rs: `Record::to_counts` -/

/-- `to_counts`: `asCount x` is `some (x.round() as u32)` when `x.round() == x`, else `none`;
    `CountMatrix::new` never fails -/
def toCounts {K : Nat} (asCount : α → Option Nat) (data : Option (Mat α K)) : Option (List (List Nat)) :=
  match data with
  | none => none
  | some m => m.toLists.mapM fun row => row.mapM asCount

/-! ### renderer of well-formed files -/

/-- the lines of a TRANSFAC record the observable fields come from, in file order (any order, any
    repetition: a later field line overrides an earlier one, as in the parser) -/
inductive Item where
  | ac (v : Bytes)
  | id (v : Bytes)
  | na (v : Bytes)
  | de (v : Bytes)
  | xx
  | matrix (syms : List Nat) (rows : List (List Bytes))   -- `P0` line and the count rows (lexemes)

def renderField (a b : UInt8) (v : Bytes) : Bytes := a :: b :: 0x20 :: 0x20 :: v ++ [0x0A]

/-- the rows `01 …`, `02 …` of a matrix block: the row number, then every lexeme followed by a blank -/
def renderRows : Nat → List (List Bytes) → Bytes
  | _, [] => []
  | i, lexs :: rest =>
    Jaspar.digits (i + 1) ++ 0x20 :: lexs.flatMap (fun l => l ++ [0x20]) ++ 0x0A :: renderRows (i + 1) rest

def renderItem (A : Alphabet) : Item → Bytes
  | .ac v => renderField 0x41 0x43 v
  | .id v => renderField 0x49 0x44 v
  | .na v => renderField 0x4E 0x41 v
  | .de v => renderField 0x44 0x45 v
  | .xx => [0x58, 0x58, 0x0A]
  | .matrix syms rows =>
    0x50 :: 0x30 :: syms.flatMap (fun s => [0x20, A.letters.getD s 0]) ++ 0x0A :: renderRows 0 rows

/-- a record: its items, then the `//` line -/
def render1 (A : Alphabet) (items : List Item) : Bytes :=
  items.flatMap (renderItem A) ++ [0x2F, 0x2F, 0x0A]

def render (A : Alphabet) (rs : List (List Item)) : Bytes := rs.flatMap (render1 A)

/-- the matrix a `P0` block must be read back as: the value of every lexeme in the row of its
    position and the column of its symbol, other columns `zero` -/
def expectData (A : Alphabet) (conv : Bytes → Option α) (zero : α) (syms : List Nat)
    (rows : List (List Bytes)) : Mat α A.K :=
  Mat.ofFn rows.length fun i j =>
    match (syms.zip (rows.getD i [])).find? (·.1 == j) with
    | some p => (conv p.2).getD zero
    | none => zero

/-- what one item contributes to the record -/
def applyItem (A : Alphabet) (conv : Bytes → Option α) (zero : α) (r : TRecord α A.K) : Item → TRecord α A.K
  | .ac v => { r with accession := some v }
  | .id v => { r with id := some v }
  | .na v => { r with name := some v }
  | .de v => { r with description := some v }
  | .xx => r
  | .matrix syms rows => { r with data := some (expectData A conv zero syms rows) }

/-- the record a list of items must be read back as -/
def expect (A : Alphabet) (conv : Bytes → Option α) (zero : α) (items : List Item) : TRecord α A.K :=
  items.foldl (applyItem A conv zero) {}

/-- a field value: starts with an ASCII non-blank character, is trimmed, has no line feed, is
    valid UTF-8 -/
def WFField (v : Bytes) : Prop :=
  (match v with
   | b :: _ => b < 0x80 ∧ isWs1 b = false
   | [] => False) ∧
  trim v = v ∧ (∀ b ∈ v, b ≠ 0x0A) ∧ validUtf8 v = true

instance (v : Bytes) : Decidable (WFField v) := by unfold WFField; cases v <;> infer_instance

/-- well-formed item -/
def WFItem (A : Alphabet) (conv : Bytes → Option α) : Item → Prop
  | .ac v => WFField v
  | .id v => WFField v
  | .na v => WFField v
  | .de v => WFField v
  | .xx => True
  | .matrix syms rows =>
    syms ≠ [] ∧ (∀ s ∈ syms, s < A.K) ∧ syms.Nodup ∧ rows ≠ [] ∧ rows.length < 4294967295 ∧
    (∀ row ∈ rows, row.length = syms.length ∧
      ∀ lex ∈ row, Uniprobe.wfLex lex = true ∧ (conv lex).isSome = true)

instance (A : Alphabet) (conv : Bytes → Option α) (it : Item) : Decidable (WFItem A conv it) := by
  cases it <;> unfold WFItem <;> infer_instance

end Transfac
end LMV
