/-
  LMV.Model.Abc — alphabets as tables (regenerated from abc.rs into LMV.Gen.Abc on every run).

  mirrors: lightmotif/src/abc.rs::{Alphabet, Symbol, ComplementableSymbol} for Dna and Protein
-/
import LMV.Gen.Abc

namespace LMV

structure Alphabet where
  K : Nat
  letters : List UInt8          -- `as_str().as_bytes()`
  symbols : List Nat            -- `symbols()`, as discriminants
  dflt : Nat                    -- the `#[default]` variant
  fromTbl : List (UInt8 × Nat)  -- arms of `from_ascii`, in order; anything else is `Err`
  asTbl : List (Nat × UInt8)    -- arms of `as_ascii`
  complTbl : List (Nat × Nat)   -- arms of `complement` (empty when not complementable)

namespace Alphabet

/-- `Symbol::from_ascii` — first matching arm, `none` for the catch-all `Err` arm -/
def fromAscii (A : Alphabet) (b : UInt8) : Option Nat :=
  (A.fromTbl.find? (·.1 == b)).map (·.2)

/-- `Symbol::from_char` (trait default): `if c.is_ascii() { from_ascii(c as u8) } else { Err }`;
    `cp` is the Unicode scalar value of the character -/
def fromChar (A : Alphabet) (cp : Nat) : Option Nat :=
  if cp < 128 then A.fromAscii cp.toUInt8 else none

/-- `Symbol::as_ascii` -/
def asAscii (A : Alphabet) (a : Nat) : Option UInt8 :=
  (A.asTbl.find? (·.1 == a)).map (·.2)

/-- `ComplementableSymbol::complement` -/
def complement (A : Alphabet) (a : Nat) : Nat :=
  ((A.complTbl.find? (·.1 == a)).map (·.2)).getD a

end Alphabet

def dna : Alphabet where
  K := Gen.Abc.dnaK
  letters := Gen.Abc.dnaLetters
  symbols := Gen.Abc.dnaSymbols
  dflt := Gen.Abc.dnaDefault
  fromTbl := Gen.Abc.dnaFromAscii
  asTbl := Gen.Abc.dnaAsAscii
  complTbl := Gen.Abc.dnaComplement

def protein : Alphabet where
  K := Gen.Abc.proteinK
  letters := Gen.Abc.proteinLetters
  symbols := Gen.Abc.proteinSymbols
  dflt := Gen.Abc.proteinDefault
  fromTbl := Gen.Abc.proteinFromAscii
  asTbl := Gen.Abc.proteinAsAscii
  complTbl := []

end LMV
