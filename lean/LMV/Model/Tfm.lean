/-
  LMV.Model.Tfm — executable mirror of the TFM-PVALUE port.

  mirrors: lightmotif-tfmpvalue/src/lib.rs::TfmPvalue::{new, recompute, distribution, lookup_pvalue,
           lookup_score, approximate_pvalue, approximate_score}, PvaluesIterator::next,
           ScoresIterator::next            (the tree WITH the four `fix:` commits of branch w-c1213)
  mirrors: lightmotif-tfmpvalue/src/hash.rs  (only as "a map from i64 to f64": iteration order of the
           hash map is not modelled, see below)

  Core Lean only.  One definition of every function, polymorphic in the scalar type through the
  class `Num`; two instances:
    * `Float`  (IEEE f64, the operations in the order the Rust performs them) — run by the driver;
    * `Rat`    (exact) — the instance the theorems of Props/C12, Props/C13 are about.

  Modelling decisions
  * Rows.  A matrix is the list of its rows restricted to the K-1 non-wildcard columns.  After
    the repairs the algorithm never reads the wildcard column.
  * Row permutation.  `new` sorts the rows by decreasing f32 range with an unstable sort; which
    permutation results among tied rows is not determined, and it is observable (row 0 is left out
    of `error_max`).  The implementation's permutation is read through `Debug`, checked with
    `admissiblePerm`, and handed to the model.  Nothing below depends on the rows being sorted: the
    theorems hold for every permutation.
  * Maps.  `IntMap<f64>` is a strictly ascending association list (`normalize`).  A row of the
    Rust loop nest `for (key,val) in map { for k in 0..K-1 { … entry(sc) += occ } }` becomes: list
    the contributions (`stepEntries`), sort them by key, add up equal keys.  The f64 sum of one key
    is therefore taken in another order than the hash map's; that is the 1e-9 tolerance of the
    correspondence.  Everything downstream of the maps (`last.sort…`, reverse cumulative sums, the
    scans) is order-faithful.
  * `qvalues`.  Only `qvalues[M-1]` is read by the look-ups; `distribution` returns that map.
    The Rust pre-inserts `(max+1, 0.0)` into it; here it is one more contribution with mass zero.
    (For M = 1 the Rust `insert` would overwrite an existing key instead; the properties are about
    M ≥ 2 and so are the theorems.)
  * i64.  Integer scores are `Int`; the harness keeps |score/granularity| far below 2^63.
  * Panics.  The only reachable panic sites are in `lookup_score` (`keys[riter + 1]`, `pvalues[&k]`);
    they are `none`.
-/

namespace LMV.Tfm

/-- the scalar operations TFM-PVALUE uses -/
class Num (α : Type) where
  add : α → α → α
  sub : α → α → α
  mul : α → α → α
  div : α → α → α
  /-- `a < b`, `a <= b`, `a == b` with the semantics of the Rust operators on f64 -/
  lt : α → α → Bool
  le : α → α → Bool
  beq : α → α → Bool
  /-- `i as f64` -/
  ofInt : Int → α
  /-- `x.floor() as i64`, `x.ceil() as i64` -/
  floor : α → Int
  ceil : α → Int
  zero : α
  one : α
  half : α
  /-- the literals `0.1` (first granularity) and `10.0` (decay) -/
  tenth : α
  ten : α

instance : Num Float where
  add := (· + ·)
  sub := (· - ·)
  mul := (· * ·)
  div := (· / ·)
  lt a b := decide (a < b)
  le a b := decide (a ≤ b)
  beq a b := a == b
  ofInt := Float.ofInt
  floor x := (Float.floor x).toInt64.toInt
  ceil x := (Float.ceil x).toInt64.toInt
  zero := 0.0
  one := 1.0
  half := 0.5
  tenth := 0.1
  ten := 10.0

instance : Num Rat where
  add := (· + ·)
  sub := (· - ·)
  mul := (· * ·)
  div := (· / ·)
  lt a b := decide (a < b)
  le a b := decide (a ≤ b)
  beq a b := decide (a = b)
  ofInt := fun i => (i : Rat)
  floor := Rat.floor
  ceil := Rat.ceil
  zero := 0
  one := 1
  half := 1 / 2
  tenth := 1 / 10
  ten := 10

local infixl:65 " +ₙ " => Num.add
local infixl:65 " -ₙ " => Num.sub
local infixl:70 " *ₙ " => Num.mul
local infixl:70 " /ₙ " => Num.div

variable {α : Type} [Num α]

/-! ### `new`: the row permutation -/

def f32max (a b : Float32) : Float32 := if a < b then b else a
def f32min (a b : Float32) : Float32 := if b < a then b else a

/-- `max_score - min_score` of one row over the non-wildcard columns, in f32 as the Rust does -/
def rowRange32 (r : List Float32) : Float32 :=
  match r with
  | [] => 0
  | x :: t => t.foldl f32max x - t.foldl f32min x

/-- `perm` is a permutation of `0..M` along which the ranges never increase: every outcome
    `sort_unstable_by(|i, j| range[j].partial_cmp(&range[i]))` can produce, and nothing else -/
def admissiblePerm (ranges : List Float32) (perm : List Nat) : Bool :=
  perm.length == ranges.length
    && (List.range ranges.length).all (fun i => perm.contains i)
    && (perm.zip perm.tail).all (fun (i, j) => !(ranges.getD i 0 < ranges.getD j 0))

/-- the rows in the order the algorithm uses them -/
def permute {β : Type} (rows : List (List β)) (perm : List Nat) : List (List β) :=
  perm.map (fun p => rows.getD p [])

/-! ### `recompute` -/

def listMin : List Int → Int
  | [] => 0
  | x :: t => t.foldl min x

def listMax : List Int → Int
  | [] => 0
  | x :: t => t.foldl max x

/-- `(matrix[p][j] as f64 / granularity).floor() as i64` for the K-1 columns of a row -/
def floorRow (g : α) (r : List α) : List Int := r.map (fun x => Num.floor (x /ₙ g))

/-- `Iterator::max_by(|x, y| x.partial_cmp(y).unwrap_or(Less))`: a later element replaces the
    running maximum unless the running maximum compares greater -/
def maxBy : List α → α
  | [] => Num.zero
  | x :: t => t.foldl (fun acc y => if Num.lt y acc then acc else y) x

/-- rounding errors `x/g - ⌊x/g⌋` of one row, and their maximum (`max_e`) -/
def rowErrs (g : α) (r : List α) : List α := r.map (fun x => (x /ₙ g) -ₙ Num.ofInt (Num.floor (x /ₙ g)))

def rowErr (g : α) (r : List α) : α := maxBy (rowErrs g r)

/-- `self.error_max = 0.0; for i in 1..M { self.error_max += max_e }` -/
def errorMax (g : α) (rows : List (List α)) : α :=
  (rows.drop 1).foldl (fun acc r => acc +ₙ rowErr g r) Num.zero

/-- `offsets[i] = -min_j int_matrix[i][j]` -/
def rowOffset (fr : List Int) : Int := - listMin fr

/-- one row of the integer matrix after the offset has been added -/
def intRow (g : α) (r : List α) : List Int :=
  let fr := floorRow g r
  fr.map (· + rowOffset fr)

structure Rec (α : Type) where
  g : α
  /-- `int_matrix`, K-1 columns, offsets included -/
  im : List (List Int)
  offsets : List Int
  errorMax : α
  minRows : List Int
  maxRows : List Int

/-- `recompute(granularity)` on the permuted rows -/
def recompute (rows : List (List α)) (g : α) : Rec α :=
  let im := rows.map (intRow g)
  { g := g
    im := im
    offsets := rows.map (fun r => rowOffset (floorRow g r))
    errorMax := errorMax g rows
    minRows := im.map listMin
    maxRows := im.map listMax }

/-! ### finite maps -/

abbrev IMap (α : Type) := List (Int × α)

/-- add up runs of equal keys (on a list sorted by key: all equal keys) -/
def combineAux (k : Int) (v : α) : List (Int × α) → List (Int × α)
  | [] => [(k, v)]
  | (k', v') :: t => if k' = k then combineAux k (v +ₙ v') t else (k, v) :: combineAux k' v' t

def combine : List (Int × α) → List (Int × α)
  | [] => []
  | (k, v) :: t => combineAux k v t

/-- the map holding, for every key, the sum of the contributions to it -/
def normalize (l : List (Int × α)) : IMap α :=
  combine (l.mergeSort (fun a b => decide (a.1 ≤ b.1)))

/-- `Σ` of the values, taken from the greatest key down (`sum += q[l]` over `last.iter().rev()`) -/
def total (q : IMap α) : α := q.foldr (fun e acc => acc +ₙ e.2) Num.zero

/-- `pvalues[k]` of `lookup_pvalue`: the sum over the keys `≥ k` -/
def tailFrom (q : IMap α) (k : Int) : α := total (q.filter (fun e => decide (k ≤ e.1)))

/-! ### `distribution` -/

/-- `maxs[pos+1]`: the greatest integer score the rows after `pos` can still add -/
def sumMax (rest : List (List Int)) : Int := (rest.map listMax).sum

/-- row 0: `if int_matrix[0][k] + maxs[1] >= min { qvalues[0][int_matrix[0][k]] += bg[k] }` -/
def firstEntries (row : List Int) (bg : List α) (maxsNext min : Int) : List (Int × α) :=
  (row.zip bg).filterMap fun (x, b) =>
    if x + maxsNext ≥ min then some (x, b) else none

/-- row `pos ≥ 1`: every reachable score of the previous row extended by every symbol; dropped
    when `min` cannot be reached any more, collapsed into the key `max+1` of THIS row when above
    `max` (the next row multiplies that bucket by the background like any other key) -/
def stepEntries (row : List Int) (bg : List α) (maxsNext min max : Int) (prev : IMap α) :
    List (Int × α) :=
  prev.flatMap fun (key, val) =>
    (row.zip bg).filterMap fun (x, b) =>
      let sc := key + x
      if sc + maxsNext ≥ min then some (if sc > max then max + 1 else sc, val *ₙ b) else none

def distFrom (bg : List α) (min max : Int) : List (List Int) → IMap α → IMap α
  | [], q => q
  | row :: rest, q => distFrom bg min max rest (normalize (stepEntries row bg (sumMax rest) min max q))

/-- `distribution(min, max)`; the result is `qvalues[M-1]` -/
def distribution (im : List (List Int)) (bg : List α) (min max : Int) : IMap α :=
  match im with
  | [] => []
  | row0 :: rest =>
    normalize ((max + 1, Num.zero) ::
      distFrom bg min max rest (normalize (firstEntries row0 bg (sumMax rest) min)))

/-! ### `lookup_pvalue` -/

/-- `while kmax > 0 && keys[kmax] as f64 >= s as f64 - error_max { kmax -= 1 }` on the keys
    `keys[0..=kmax]` listed from `kmax` down; returns `keys[kmax]` -/
def walkDown (thr : α) : List Int → Int → Int
  | [], d => d
  | [k], _ => k
  | k :: k' :: t, d => if Num.le thr (Num.ofInt k) then walkDown thr (k' :: t) d else k

/-- the window `(avg, min, max)` of integer scores for a query score -/
def pvalueWindow (rc : Rec α) (score : α) : Int × Int × Int :=
  let scaled := (score /ₙ rc.g) +ₙ Num.ofInt rc.offsets.sum
  (Num.floor scaled,
   Num.floor ((scaled -ₙ rc.errorMax) -ₙ Num.one),
   Num.floor ((scaled +ₙ rc.errorMax) +ₙ Num.one))

/-- `lookup_pvalue(score)` = `(pmin, pmax)` -/
def lookupPvalue (rc : Rec α) (bg : List α) (score : α) : α × α :=
  let (avg, min, max) := pvalueWindow rc score
  let q := distribution rc.im bg min max
  -- `s`: the last assignment of `if l >= avg { s = l }` going down = the least key ≥ avg
  let s := q.foldr (fun e s => if avg ≤ e.1 then e.1 else s) (max + 1)
  let below := (q.filter (fun e => decide (e.1 ≤ s))).map (·.1)
  let kmax := walkDown (Num.ofInt s -ₙ rc.errorMax) below.reverse s
  (tailFrom q s, tailFrom q kmax)

/-! ### `lookup_score` -/

/-- state of the scan `while riter > 0 { sum += q[keys[riter]]; pvalues.insert(…); if sum >= pvalue
    { break } riter -= 1 }` over the keys from the top: the running sum, `pvalues` (most recent
    first) and the keys from `keys[riter]` down -/
def scanDown (p : α) : α → List (Int × α) → List (Int × α) → α × List (Int × α) × List (Int × α)
  | sum, pv, [] => (sum, pv, [])
  | sum, pv, [e] => (sum, pv, [e])
  | sum, pv, e :: e' :: t =>
    let sum' := sum +ₙ e.2
    if Num.le p sum' then (sum', (e.1, sum') :: pv, e :: e' :: t)
    else scanDown p sum' ((e.1, sum') :: pv) (e' :: t)

/-- `pvalues[&k]` (panics on a missing key) -/
def pvGet (pv : List (Int × α)) (k : Int) : Option α := (pv.find? (fun e => e.1 == k)).map (·.2)

/-- the part of `lookup_score` after `self.distribution(min, max)`: `q` is `qvalues[M-1]`,
    `errMax` is `self.error_max` -/
def lookupScoreQ (errMax : α) (q : IMap α) (p : α) : Option (Int × α × α) :=
  match scanDown p Num.zero [] q.reverse with
  | (_, _, []) => none                       -- `keys.len() - 1` on an empty key list
  | (sum, pv, cur :: below) =>
    -- `keys[riter + 1]`: the key processed just before `cur` (if `cur` itself was processed it is
    -- the second entry of `pvalues`, otherwise the first)
    let above : Option Int :=
      match pv with
      | [] => none
      | e :: pv' => if e.1 = cur.1 then pv'.head?.map (·.1) else some e.1
    let fin (alpha alphaE : Int) (pv : List (Int × α)) : Option (Int × α × α) :=
      if Num.lt errMax (Num.ofInt (alpha - alphaE)) then
        match pvGet pv alpha with
        | some a => some (alpha, a, a)
        | none => none
      else
        match pvGet pv alphaE, pvGet pv alpha with
        | some e, some a => some (alpha, e, a)
        | _, _ => none
    if Num.lt p sum then
      match above with
      | none => none                         -- `keys[riter + 1]` out of bounds
      | some alpha => fin alpha cur.1 pv
    else
      match below with
      | [] => fin cur.1 cur.1 ((cur.1, sum) :: pv)                       -- riter == 0
      | e :: _ =>
        let sum' := sum +ₙ ((pvGet pv e.1).getD Num.zero)
        fin cur.1 e.1 ((e.1, sum') :: pv)

/-- `lookup_score(pvalue, min..=max)` = `(alpha, range.start, range.end)`; `none` = panic -/
def lookupScore (rc : Rec α) (bg : List α) (p : α) (min max : Int) : Option (Int × α × α) :=
  lookupScoreQ rc.errorMax (distribution rc.im bg min max) p

/-! ### the two iterators -/

structure Iteration (α : Type) where
  score : α
  start : α
  stop : α
  granularity : α
  converged : Bool

/-- `approximate_pvalue(score).take(fuel)`; state `(granularity, converged)` -/
def pvalueSteps (rows : List (List α)) (bg : List α) (score : α) :
    Nat → α → Bool → List (Iteration α)
  | 0, _, _ => []
  | fuel + 1, g, converged =>
    if converged || Num.le g Num.zero then []
    else
      let rc := recompute rows g
      let (pmin, pmax) := lookupPvalue rc bg score
      let conv := Num.beq pmin pmax
      { score := score, start := pmin, stop := pmax, granularity := g, converged := conv } ::
        pvalueSteps rows bg score fuel (g /ₙ Num.ten) conv

def approximatePvalue (rows : List (List α)) (bg : List α) (score : α) (fuel : Nat) :
    List (Iteration α) :=
  pvalueSteps rows bg score fuel Num.tenth false

/-- `ceil(error_max + 0.5)` as used for the window (an integer-valued f64 in the Rust) -/
def halfWidth (rc : Rec α) : Int := Num.ceil (rc.errorMax +ₙ Num.half)

/-- the offset-free window handed from one refinement to the next -/
def nextWindow (rc : Rec α) (iscore : Int) : Int × Int :=
  let c : α := Num.ofInt (halfWidth rc)
  let a : α := Num.ofInt (iscore - rc.offsets.sum)
  (Num.floor ((a -ₙ c) *ₙ Num.ten), Num.floor ((a +ₙ c) *ₙ Num.ten))

/-- `approximate_score(pvalue).take(fuel)`; state `(granularity, converged, min, max)`; the second
    component is `true` when a step panicked (the steps before it are kept) -/
def scoreSteps (rows : List (List α)) (bg : List α) (p : α) :
    Nat → α → Bool → Int → Int → List (Iteration α) × Bool
  | 0, _, _, _, _ => ([], false)
  | fuel + 1, g, converged, min, max =>
    if converged || Num.le g Num.zero then ([], false)
    else
      let rc := recompute rows g
      let offset := rc.offsets.sum
      let slack := Num.ceil (rc.errorMax +ₙ Num.one)
      match lookupScore rc bg p (min + offset - slack) (max + offset) with
      | none => ([], true)
      | some (iscore, start, stop) =>
        let (min', max') := nextWindow rc iscore
        let conv := Num.beq start stop
        let (rest, pn) := scoreSteps rows bg p fuel (g /ₙ Num.ten) conv min' max'
        ({ score := Num.ofInt (iscore - offset) *ₙ g, start := start, stop := stop,
           granularity := g, converged := conv } :: rest, pn)

/-- the first window: every score the matrix can reach, offset-free -/
def firstWindow (rc : Rec α) : Int × Int :=
  (rc.minRows.sum - rc.offsets.sum, rc.maxRows.sum + halfWidth rc - rc.offsets.sum)

def approximateScore (rows : List (List α)) (bg : List α) (p : α) (fuel : Nat) :
    List (Iteration α) × Bool :=
  let (min, max) := firstWindow (recompute rows Num.tenth)
  scoreSteps rows bg p fuel Num.tenth false min max

end LMV.Tfm
