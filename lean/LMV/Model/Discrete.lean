/-
  LMV.Model.Discrete — 8-bit discretisation of a scoring matrix and the u8 scoring kernels.

  mirrors: lightmotif/src/pwm/mod.rs::ScoringMatrix::{min_score (row minima), max_score, to_discrete, score_position}
           lightmotif/src/pwm/mod.rs::DiscreteMatrix::{score_position, scale, unscale}
           lightmotif/src/pli/mod.rs::Score::score_rows_into            (generic kernel, T = u8)
           lightmotif/src/pli/platform/avx2.rs::Avx2::score_u8_rows_into_shuffle, score_u8_avx2_shuffle
           lightmotif/src/pli/dispatch.rs::Score<u8, Dna, _> for Pipeline<Dna, Dispatch>
           lightmotif/src/scores.rs::StripedScores::{empty, resize, is_empty}

  Symbols are their indices; the wildcard is column `K−1`.  Scalars go through `ScanScalar`.
  Panics are `Except.error`.  The `u8` accumulation is a parameter (`AddMode`): which one a build
  of the code uses is recorded by `accOf` below.
-/
import LMV.Model.Mat
import LMV.Model.Seq
import LMV.Model.ScanScalar

namespace LMV
namespace Disc

open ScanScalar

/-- fold with early exit: the shape of every Rust loop whose body can panic -/
def foldE {β σ : Type} (f : σ → β → Except String σ) : List β → σ → Except String σ
  | [], s => .ok s
  | b :: bs, s =>
    match f s b with
    | .error e => .error e
    | .ok s' => foldE f bs s'

/-- how a `u8` accumulator adds -/
inductive AddMode where
  /-- `+=` without overflow checks (release profile before the repair) -/
  | wrapping
  /-- `+=` with overflow checks (dev profile before the repair): panic -/
  | checked
  /-- `saturating_add` / `_mm256_adds_epu8` -/
  | saturating
deriving DecidableEq, Repr

def addU8 : AddMode → UInt8 → UInt8 → Except String UInt8
  | .wrapping, a, b => .ok (a + b)
  | .checked, a, b => if 255 < a.toNat + b.toNat then .error "u8-overflow" else .ok (a + b)
  | .saturating, a, b => .ok (if 255 < a.toNat + b.toNat then 255 else a + b)

/-- the accumulation used by the generic kernel (`Accumulate::accumulate` for `u8`) and by
    `DiscreteMatrix::score_position` in a build with / without overflow checks.  Since the repair
    `fix: saturating accumulation of 8-bit scores` both are `saturating_add` in every profile;
    before it they were a plain `+=`: `if overflowChecks then .checked else .wrapping`
    (see `C08.wrapping_counterexample`, `C08.checked_counterexample`). -/
def accOf (_overflowChecks : Bool) : AddMode := .saturating

section
variable {α : Type} [ScanScalar α] [Inhabited α] {K C : Nat}

/-- `row[..K-1].iter().min_by(|a, b| a.partial_cmp(b).unwrap())`: the FIRST minimum -/
def rowMin (p : Mat α K) (i : Nat) : α :=
  (List.range (K - 2)).foldl (fun m a => let y := p.get i (a + 1); if lt y m then y else m) (p.get i 0)

/-- `row[..K-1].iter().max_by(|a, b| a.partial_cmp(b).unwrap())`: the LAST maximum -/
def rowMax (p : Mat α K) (i : Nat) : α :=
  (List.range (K - 2)).foldl (fun m a => let y := p.get i (a + 1); if lt y m then m else y) (p.get i 0)

/-- `iter.sum::<f32>()` -/
def sumList (xs : List α) : α := xs.foldl add sumInit

/-- `ScoringMatrix::min_score` -/
def minScore (p : Mat α K) : α := sumList ((List.range p.rows).map (rowMin p))

/-- `ScoringMatrix::max_score` -/
def maxScore (p : Mat α K) : α := sumList ((List.range p.rows).map (rowMax p))

/-- some compared entry is NaN: `partial_cmp(..).unwrap()` panics (`K − 1 ≥ 2` compared columns) -/
def hasNaN (p : Mat α K) : Bool :=
  (List.range p.rows).any fun i => (List.range (K - 1)).any fun a => isNaN (p.get i a)

/-- `DiscreteMatrix` -/
structure Discrete (α : Type) (K : Nat) where
  data : Mat UInt8 K
  factor : α
  offsets : List α
  offset : α

/-- `ScoringMatrix::to_discrete` -/
def toDiscrete (p : Mat α K) : Except String (Discrete α K) :=
  if hasNaN p then .error "partial_cmp-unwrap" else
  let maxS := maxScore p
  let offsets := (List.range p.rows).map (rowMin p)
  let offset := sumList offsets
  let factor := div (sub maxS offset) (ofU8 255)
  -- for i in 0..rows { for j in 0..columns { data[i][j] = ((pssm[i][j] - offsets[i]) / factor).ceil() as u8 } }
  let data : Mat UInt8 K :=
    Mat.ofFn p.rows fun i j => ceilU8 (div (sub (p.get i j) (offsets.getD i zero)) factor)
  .ok ⟨data, factor, offsets, offset⟩

/-- `DiscreteMatrix::scale` -/
def Discrete.scale (dm : Discrete α K) (x : α) : UInt8 := floorU8 (div (sub x dm.offset) dm.factor)

/-- `DiscreteMatrix::unscale` -/
def Discrete.unscale (dm : Discrete α K) (b : UInt8) : α := add (mul (ofU8 b) dm.factor) dm.offset

/-- the score of a window given as a function `j ↦ symbol`, in the order of the Rust loop -/
def scoreFn (p : Mat α K) (sym : Nat → Nat) : α :=
  (List.range p.rows).foldl (fun s j => add s (p.get j (sym j))) zero

/-- `ScoringMatrix::score_position(seq, pos)`; `s[pos + j]` may panic -/
def scorePosition (p : Mat α K) (st : Striped C) (pos : Nat) : Except String α :=
  foldE (fun s j =>
    match st.index (pos + j) with
    | .error e => .error e
    | .ok a => .ok (add s (p.get j a))) (List.range p.rows) zero

end

/-- the 8-bit score of a window given as a function, per accumulation mode -/
def dscoreFn {K : Nat} (mode : AddMode) (dm : Mat UInt8 K) (sym : Nat → Nat) : Except String UInt8 :=
  foldE (fun s j => addU8 mode s (dm.get j (sym j))) (List.range dm.rows) 0

/-- `DiscreteMatrix::score_position(seq, pos)` -/
def dscorePosition {K C : Nat} (mode : AddMode) (dm : Mat UInt8 K) (st : Striped C) (pos : Nat) :
    Except String UInt8 :=
  foldE (fun s j =>
    match st.index (pos + j) with
    | .error e => .error e
    | .ok a => addU8 mode s (dm.get j a)) (List.range dm.rows) 0

/-- `StripedScores<u8, C>` -/
structure Scores (C : Nat) where
  data : Mat UInt8 C
  maxIndex : Nat

/-- `StripedScores::empty()` / `resize(0, 0)` -/
def Scores.empty {C : Nat} : Scores C := ⟨Mat.empty, 0⟩

/-- one cell of the generic kernel: `for (j, pssm_row) in matrix.iter().enumerate() { score +=
    pssm_row[seq.matrix()[seq_row + j][col]] }`; the row index may be out of range -/
def genericCell {K C : Nat} (mode : AddMode) (dm : Mat UInt8 K) (st : Striped C) (row col : Nat) :
    Except String UInt8 :=
  foldE (fun s j =>
    if row + j < st.data.rows then addU8 mode s (dm.get j (st.data.get (row + j) col))
    else .error "row-index") (List.range dm.rows) 0

/-- the first panic met when the cells of rows `lo .. lo+n` are computed in row-major order -/
def firstPanic {C : Nat} (cell : Nat → Nat → Except String UInt8) (lo n : Nat) : Option String :=
  (List.range n).findSome? fun r => (List.range C).findSome? fun c =>
    match cell (lo + r) c with
    | .error e => some e
    | .ok _ => none

/-- the score matrix of a block whose cells were all computed without a panic -/
def blockMat {C : Nat} (cell : Nat → Nat → Except String UInt8) (lo n : Nat) : Mat UInt8 C :=
  Mat.ofFn n fun r c =>
    match cell (lo + r) c with
    | .ok v => v
    | .error _ => 0

/-- trait-default `Score::score_rows_into` for `T = u8` (generic backend) on rows `lo..hi` -/
def scoreRowsGeneric {K C : Nat} (mode : AddMode) (dm : Mat UInt8 K) (st : Striped C) (lo hi : Nat) :
    Except String (Scores C) :=
  if st.length < dm.rows ∨ hi ≤ lo then .ok Scores.empty else
  match firstPanic (C := C) (genericCell mode dm st) lo (hi - lo) with
  | some e => .error e
  | none => .ok ⟨blockMat (genericCell mode dm st) lo (hi - lo), st.length + 1 - dm.rows⟩

/-- one lane of `score_u8_avx2_shuffle`: `s = adds_epu8(s, shuffle_epi8(t, x))` per motif row; the
    loads are unchecked (the caller guarantees `wrap ≥ M−1` and rows inside the sequence rows).
    `shuffle_epi8(t, x)[lane] = t[x[lane] & 15]` for the symbol bytes `x[lane] < 16`; `t` is the
    first 16 bytes of the matrix row. -/
def avx2Cell {K C : Nat} (dm : Mat UInt8 K) (st : Striped C) (row col : Nat) : Except String UInt8 :=
  foldE (fun s j => addU8 .saturating s (dm.get j (st.data.get (row + j) col))) (List.range dm.rows) 0

/-- `Avx2::score_u8_rows_into_shuffle` -/
def scoreRowsAvx2 {K C : Nat} (dm : Mat UInt8 K) (st : Striped C) (lo hi : Nat) :
    Except String (Scores C) :=
  if dm.rows = 0 then .error "usize-underflow" else
  if st.wrap < dm.rows - 1 then .error "not-enough-wrap" else
  if st.length < dm.rows ∨ hi ≤ lo then .ok Scores.empty else
  match firstPanic (C := C) (avx2Cell dm st) lo (hi - lo) with
  | some e => .error e
  | none => .ok ⟨blockMat (avx2Cell dm st) lo (hi - lo), st.length + 1 - dm.rows⟩

/-- the arm `Pipeline::dispatch()` selected -/
inductive Arm where
  | generic | sse2 | avx2
deriving DecidableEq, Repr

/-- `Score<u8, Dna, _> for Pipeline<Dna, Dispatch>`: AVX2 arm → shuffle kernel, every other arm →
    the generic kernel -/
def scoreRowsDispatch {K C : Nat} (arm : Arm) (mode : AddMode) (dm : Mat UInt8 K) (st : Striped C)
    (lo hi : Nat) : Except String (Scores C) :=
  match arm with
  | .avx2 => scoreRowsAvx2 dm st lo hi
  | _ => scoreRowsGeneric mode dm st lo hi

end Disc
end LMV
