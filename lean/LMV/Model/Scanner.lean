/-
  LMV.Model.Scanner — the block scanner as a state machine.

  mirrors: lightmotif/src/scan.rs::Scanner::{new, block_size, threshold}, Iterator::next, Iterator::max, Hit
           lightmotif/src/pli/mod.rs::Maximum::{argmax, max}, Threshold::threshold      (trait defaults)
           lightmotif/src/pli/platform/avx2.rs::max_u8_avx2
           lightmotif/src/pli/dispatch.rs::Maximum<u8, _> for Pipeline<A, Dispatch>

  The scanner only talks to the rest of the library through five operations (`Kernels`): scoring a
  block of rows with the 8-bit matrix, the block maximum, the candidate list, the exact re-scoring
  of one position and the score-to-byte mapping.  `next` and `max` are written against that record;
  `kernels` builds the record the real `Scanner` uses from the matrix, the striped sequence, the
  dispatcher arm and the `u8` accumulation of the build.
-/
import LMV.Model.Discrete

namespace LMV
namespace Scanner

open ScanScalar Disc

/-! ### block maximum and candidates -/

/-- trait-default `Maximum::max` = `argmax` (a `>=` scan started from `scores[0]`) then a read -/
def maxGeneric {C : Nat} (sc : Scores C) : Option UInt8 :=
  if sc.data.rows = 0 then none else
  let init : Nat × Nat × UInt8 := (0, 0, sc.data.get 0 0)
  let best := (List.range sc.data.rows).foldl (fun acc i =>
    (List.range C).foldl (fun (acc : Nat × Nat × UInt8) j =>
      if sc.data.get i j ≥ acc.2.2 then (i, j, sc.data.get i j) else acc) acc) init
  some (sc.data.get best.1 best.2.1)

/-- `max_u8_avx2`: per-column running `max_epu8` from zero, then the maximum of the 32 lanes -/
def maxAvx2 {C : Nat} (sc : Scores C) : Option UInt8 :=
  if sc.data.rows = 0 then none else
  let lanes := (List.range C).map fun c =>
    (List.range sc.data.rows).foldl (fun m r => if sc.data.get r c ≥ m then sc.data.get r c else m) 0
  some (lanes.foldl (fun m x => if x ≥ m then x else m) 0)

/-- `Maximum<u8, _> for Pipeline<A, Dispatch>` -/
def maxDispatch {C : Nat} (arm : Arm) (sc : Scores C) : Option UInt8 :=
  match arm with
  | .avx2 => maxAvx2 sc
  | _ => maxGeneric sc

/-- trait-default `Threshold::threshold` (used by every arm): `(row, col)` of the cells `>= t`,
    row-major -/
def threshold {C : Nat} (sc : Scores C) (t : UInt8) : List (Nat × Nat) :=
  (List.range sc.data.rows).flatMap fun i =>
    ((List.range C).filter fun c => sc.data.get i c ≥ t).map fun c => (i, c)

/-! ### the scanner -/

/-- `Hit` -/
structure Hit (α : Type) where
  position : Nat
  score : α
deriving Repr

/-- what `Scanner` uses of the matrix, the sequence and the pipeline -/
structure Kernels (α : Type) (C : Nat) where
  /-- `seq.matrix().rows() - seq.wrap()` -/
  seqRows : Nat
  /-- `pipeline.score_rows_into(&dm, &seq, lo..hi, &mut dscores)`, then `dscores` -/
  scoreRows : Nat → Nat → Except String (Scores C)
  /-- `pipeline.max(&dscores)` -/
  max : Scores C → Option UInt8
  /-- `pipeline.threshold(&dscores, t)` as `(row, col)` -/
  threshold : Scores C → UInt8 → List (Nat × Nat)
  /-- `pssm.score_position(seq, index)` -/
  scorePosition : Nat → Except String α
  /-- `dm.scale(x)` -/
  scale : α → UInt8

/-- the mutable part of a `Scanner`: `row` and the `hits` buffer (head = last pushed = next popped) -/
structure State (α : Type) where
  row : Nat
  hits : List (Hit α)

/-- `Scanner::new`: `row = 0`, no buffered hit -/
def State.init {α : Type} : State α := ⟨0, []⟩

section
variable {α : Type} [ScanScalar α] {C : Nat}

/-- the candidate loop of `next`:
    `for c in threshold(..) { let index = c.col * seq_rows + row + c.row; if index < max_index {
       let score = score_position(index); if score >= threshold { hits.push(Hit::new(index, score)) } } }` -/
def rescore (k : Kernels α C) (t : α) (row maxIndex : Nat) :
    List (Nat × Nat) → List (Hit α) → Except String (List (Hit α))
  | [], hits => .ok hits
  | (r, c) :: cs, hits =>
    let index := c * k.seqRows + row + r
    if index < maxIndex then
      match k.scorePosition index with
      | .error e => .error e
      | .ok score =>
        if ge score t then rescore k t row maxIndex cs (⟨index, score⟩ :: hits)
        else rescore k t row maxIndex cs hits
    else rescore k t row maxIndex cs hits

/-- one iteration of the `while` of `next`: score the block, skip it when its maximum (if any) is
    below the byte threshold, otherwise re-score the candidates; then `row += block_size` -/
def blockStep (k : Kernels α C) (t : α) (block : Nat) (st : State α) : Except String (State α) :=
  let t8 := k.scale t
  let e := min (st.row + block) k.seqRows
  match k.scoreRows st.row e with
  | .error err => .error err
  | .ok ds =>
    let r : Except String (List (Hit α)) :=
      match k.max ds with
      | some m =>
        if m ≥ t8 then rescore k t st.row ds.maxIndex (k.threshold ds t8) st.hits else .ok st.hits
      | none => .ok st.hits
    match r with
    | .error err => .error err
    | .ok hits => .ok ⟨st.row + block, hits⟩

/-- `while self.hits.is_empty() && self.row < sequence_rows { … }`; the fuel only runs out when
    `block_size = 0` (the Rust loop then never ends) -/
def nextLoop (k : Kernels α C) (t : α) (block : Nat) : Nat → State α → Except String (State α)
  | 0, _ => .error "no-progress"
  | fuel + 1, st =>
    if st.hits.isEmpty ∧ st.row < k.seqRows then
      match blockStep k t block st with
      | .error e => .error e
      | .ok st' => nextLoop k t block fuel st'
    else .ok st

/-- `Iterator::next`: run the loop, then `self.hits.pop()` -/
def next (k : Kernels α C) (t : α) (block : Nat) (st : State α) :
    Except String (Option (Hit α) × State α) :=
  match nextLoop k t block (k.seqRows + 1) st with
  | .error e => .error e
  | .ok st' =>
    match st'.hits with
    | [] => .ok (none, st')
    | h :: hs => .ok (some h, ⟨st'.row, hs⟩)

/-- iterate `next` until it returns `None` (`collect`), at most `fuel` hits -/
def collect (k : Kernels α C) (t : α) (block : Nat) : Nat → State α → Except String (List (Hit α))
  | 0, _ => .error "collect-fuel"
  | fuel + 1, st =>
    match next k t block st with
    | .error e => .error e
    | .ok (none, _) => .ok []
    | .ok (some h, st') =>
      match collect k t block fuel st' with
      | .error e => .error e
      | .ok hs => .ok (h :: hs)

/-- `k` calls of `next`: the hits returned (stopping at the first `None`) and the state reached -/
def nextN (k : Kernels α C) (t : α) (block : Nat) : Nat → State α →
    Except String (List (Hit α) × State α)
  | 0, st => .ok ([], st)
  | n + 1, st =>
    match next k t block st with
    | .error e => .error e
    | .ok (none, st') => .ok ([], st')
    | .ok (some h, st') =>
      match nextN k t block n st' with
      | .error e => .error e
      | .ok (hs, st'') => .ok (h :: hs, st'')

/-- seeding of `max`: `take(&mut hits).into_iter().filter(|h| h.score >= threshold)
    .max_by(|x, y| x.score.partial_cmp(&y.score).unwrap())` — the iterator runs from the oldest
    buffered hit to the newest and `max_by` keeps the LAST of equal maxima -/
def seedBest (t : α) (hits : List (Hit α)) : Option (Hit α) :=
  hits.reverse.foldl (fun best h =>
    if ge h.score t then
      match best with
      | none => some h
      | some b => if gt b.score h.score then some b else some h
    else best) none

/-- the candidate loop of `max`; state = `(best, best_discrete)` -/
def maxCand (k : Kernels α C) (t : α) (row : Nat) (ds : Scores C) :
    List (Nat × Nat) → Option (Hit α) × UInt8 → Except String (Option (Hit α) × UInt8)
  | [], s => .ok s
  | (r, c) :: cs, (best, bd) =>
    let dscore := ds.data.get r c
    if dscore ≥ bd then
      let index := c * k.seqRows + row + r
      if index < ds.maxIndex then
        match k.scorePosition index with
        | .error e => .error e
        | .ok score =>
          match best with
          | some hit =>
            if gt score hit.score || (eq score hit.score && decide (index > hit.position)) then
              maxCand k t row ds cs (some ⟨index, score⟩, k.scale score)
            else maxCand k t row ds cs (best, bd)
          | none =>
            if ge score t then maxCand k t row ds cs (some ⟨index, score⟩, bd)
            else maxCand k t row ds cs (best, bd)
      else maxCand k t row ds cs (best, bd)
    else maxCand k t row ds cs (best, bd)

/-- loop state of `max` -/
structure MaxState (α : Type) where
  row : Nat
  best : Option (Hit α)
  bd : UInt8

/-- one iteration of the `while` of `max` -/
def maxStep (k : Kernels α C) (t : α) (block : Nat) (s : MaxState α) : Except String (MaxState α) :=
  let e := min (s.row + block) k.seqRows
  match k.scoreRows s.row e with
  | .error err => .error err
  | .ok ds =>
    let r : Except String (Option (Hit α) × UInt8) :=
      match k.max ds with
      | some m =>
        if m ≥ s.bd then maxCand k t s.row ds (k.threshold ds s.bd) (s.best, s.bd) else .ok (s.best, s.bd)
      | none => .ok (s.best, s.bd)
    match r with
    | .error err => .error err
    | .ok (best, bd) => .ok ⟨s.row + block, best, bd⟩

def maxLoop (k : Kernels α C) (t : α) (block : Nat) : Nat → MaxState α → Except String (MaxState α)
  | 0, _ => .error "no-progress"
  | fuel + 1, s =>
    if s.row < k.seqRows then
      match maxStep k t block s with
      | .error e => .error e
      | .ok s' => maxLoop k t block fuel s'
    else .ok s

/-- `Iterator::max` override (consumes the scanner) -/
def max (k : Kernels α C) (t : α) (block : Nat) (st : State α) : Except String (Option (Hit α)) :=
  let best := seedBest t st.hits
  let bd := match best with
    | some hit => k.scale hit.score
    | none => k.scale t
  match maxLoop k t block (k.seqRows + 1) ⟨st.row, best, bd⟩ with
  | .error e => .error e
  | .ok s => .ok s.best

/-- the kernels of a real `Scanner`: 8-bit matrix of `to_discrete`, dispatcher arm, accumulation
    mode of the build -/
def kernels [Inhabited α] {K : Nat} (pssm : Mat α K) (dm : Discrete α K) (seq : Striped C)
    (arm : Arm) (mode : AddMode) : Kernels α C where
  seqRows := seq.data.rows - seq.wrap
  scoreRows lo hi := scoreRowsDispatch arm mode dm.data seq lo hi
  max := maxDispatch arm
  threshold := threshold
  scorePosition := scorePosition pssm seq
  scale := dm.scale

end

end Scanner
end LMV
