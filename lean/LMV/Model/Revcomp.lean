/-
  LMV.Model.Revcomp — mirror model of the four `reverse_complement` methods.

  mirrors: lightmotif/src/pwm/mod.rs::CountMatrix::reverse_complement
           lightmotif/src/pwm/mod.rs::FrequencyMatrix::reverse_complement
           lightmotif/src/pwm/mod.rs::WeightMatrix::reverse_complement
           lightmotif/src/pwm/mod.rs::ScoringMatrix::reverse_complement
           lightmotif/src/abc.rs::ComplementableSymbol for Nucleotide   (through LMV.Gen.Abc)

  The four methods have the same body:

      let mut data = DenseMatrix::new(self.data.rows());
      for (i, row) in self.data.iter().rev().enumerate() {
          for &s in A::symbols() {
              data[i][s.as_index()] = row[A::complement(s).as_index()];
          }
      }

  and differ only in what is carried along unchanged (`n`, the background).  The model is that
  loop nest over the regenerated `symbols` and `complement` tables, for any element type.
-/
import LMV.Model.Mat
import LMV.Model.Abc

namespace LMV
namespace Revcomp

variable {α : Type} {K : Nat}

/-- the inner loop: `for &s in A::symbols() { data[i][s] = row[complement(s)] }` where `row` is row
    `src` of `m` -/
def rcRow [Inhabited α] (A : Alphabet) (m : Mat α K) (src : Nat) (d : Mat α K) (i : Nat) : Mat α K :=
  A.symbols.foldl (fun d s => d.set i s (m.get src (A.complement s))) d

/-- the outer loop: `enumerate()` index `i` meets row `rows-1-i` of `self.data.iter().rev()`;
    `z` is the fill value of `DenseMatrix::new` (`T::default()`) -/
def rc [Inhabited α] (A : Alphabet) (z : α) (m : Mat α K) : Mat α K :=
  (List.range m.rows).foldl (fun d i => rcRow A m (m.rows - 1 - i) d i)
    ((Mat.empty : Mat α K).resize m.rows z)

/-- reverse complement of a sequence of symbols (what "the opposite strand" means in the property;
    the library has no such function, the harness and the oracle do it by hand) -/
def rcSeq (A : Alphabet) (s : List Nat) : List Nat := (s.map A.complement).reverse

end Revcomp
end LMV
