/-
  LMV.Model.StripeAvx2 — mirror model of the AVX2 striping kernel.

  mirrors: lightmotif/src/pli/platform/avx2.rs::stripe_avx2 (+ Avx2::stripe_into, and the
           `Stripe` impl of `Pipeline<A, Dispatch>` in dispatch.rs)
  The 32 loads, the 80-step unpack network and the 32 stores are NOT typed in here: they come from
  LMV.Gen.Avx2Stripe, regenerated from the source on every run.
-/
import LMV.Model.Seq
import LMV.Gen.Avx2Stripe

namespace LMV
namespace StripeAvx2

open Isa

/-- a position in the register file: `some (register, byte)`, or `none` for a zeroed byte -/
abbrev Pos := Option (Nat × Nat)

/-- one `unpack!(kind, ra, rb)`: `t = ra; ra = opA(t, rb); rb = opB(t, rb)` -/
structure Step where
  opA : Op
  opB : Op
  ra : Nat
  rb : Nat
deriving Repr

/-- where the value at `p` AFTER the step came from BEFORE the step -/
def Step.src (s : Step) : Pos → Pos
  | none => none
  | some (reg, byte) =>
    let via (o : Op) : Pos :=
      match o.src byte with
      | (Side.a, k) => some (s.ra, k)
      | (Side.b, k) => some (s.rb, k)
      | (Side.zero, _) => none
    if reg = s.ra then via s.opA
    else if reg = s.rb then via s.opB
    else some (reg, byte)

/-- source map of a straight-line sequence of steps (executed first to last) -/
def srcOfAll : List Step → Pos → Pos
  | [], p => p
  | s :: ss, p => s.src (srcOfAll ss p)

/-- executing one step on a register file over any carrier -/
def Step.run {α : Type} (zero : α) (s : Step) (r : Nat → Nat → α) : Nat → Nat → α :=
  fun reg byte =>
    if reg = s.ra then Isa.apply zero s.opA.src (r s.ra) (r s.rb) byte
    else if reg = s.rb then Isa.apply zero s.opB.src (r s.ra) (r s.rb) byte
    else r reg byte

def run {α : Type} (zero : α) : List Step → (Nat → Nat → α) → (Nat → Nat → α)
  | [], r => r
  | s :: ss, r => run zero ss (s.run zero r)

def readPos {α : Type} (zero : α) (r : Nat → Nat → α) : Pos → α
  | none => zero
  | some (reg, byte) => r reg byte

/-- the network as extracted from the source (`none` if a step names a macro arm that does not exist) -/
def network : Option (List Step) :=
  Gen.Avx2Stripe.steps.mapM fun (kind, ra, rb) =>
    (Gen.Avx2Stripe.arms.find? (·.1 == kind)).map fun (_, oa, ob) => ⟨oa, ob, ra, rb⟩

/-- for store number `k` and column `c`: the row multiplier of the store and the (load register,
    byte) whose value lands in cell `(row i + mul, column c)`; a table computed once from the
    extracted network -/
def cellTable : Array (Nat × Array Pos) :=
  match network with
  | none => #[]
  | some net =>
    (Gen.Avx2Stripe.stores.map fun (mul, reg) =>
      (mul, ((List.range 32).map fun c => srcOfAll net (some (reg, c))).toArray)).toArray

def cellSrc (k c : Nat) : Option (Nat × Pos) :=
  match cellTable[k]? with
  | some (mul, row) => (row[c]?).map fun p => (mul, p)
  | none => none

/-- the multiplier of `src_stride` in the load of register `reg` -/
def loadMul (reg : Nat) : Option Nat :=
  (Gen.Avx2Stripe.loads.find? (·.1 == reg)).map (·.2)

/-- one 32×32 block at row offset `i`: 32 unaligned loads (bytes past the end of the symbol buffer
    read as `junk offset`), the network, 32 stores -/
def block (junk : Nat → Nat) (s : Array Nat) (stride i : Nat) (data : Mat Nat 32) : Mat Nat 32 :=
  let loaded (reg byte : Nat) : Nat :=
    match loadMul reg with
    | some mul => let off := mul * stride + i + byte; if off < s.size then s.getD off 0 else junk off
    | none => junk 0
  (List.range Gen.Avx2Stripe.stores.length).foldl (fun d k =>
    (List.range 32).foldl (fun d c =>
      match cellSrc k c with
      | some (mul, p) => d.set (i + mul) c (readPos 0 loaded p)
      | none => d) d) data

/-- the second conjunct of the block loop condition, `g * src_stride + i + 32 <= length` (the furthest
    load of the block stays inside the symbol buffer); absent (`none`) before the C06 repair -/
def srcGuardOk (length stride i : Nat) : Bool :=
  match Gen.Avx2Stripe.srcGuard with
  | some g => decide (g * stride + i + 32 ≤ length)
  | none => true

/-- the block loop `while i + 32 <= src_stride && 0x1f * src_stride + i + 32 <= length { …; i += 32 }` -/
def blockLoop (junk : Nat → Nat) (s : Array Nat) (stride : Nat) :
    (fuel : Nat) → Nat → Mat Nat 32 → Nat × Mat Nat 32
  | 0, i, d => (i, d)
  | fuel + 1, i, d =>
    if (if Gen.Avx2Stripe.loopStrict then i + 32 < stride else i + 32 ≤ stride) ∧
        srcGuardOk s.size stride i = true then
      blockLoop junk s stride fuel (i + Gen.Avx2Stripe.srcInc) (block junk s stride i d)
    else (i, d)

/-- `stripe_avx2` -/
def stripe (N : Nat) (junk : Nat → Nat) (s : List Nat) (old : Striped 32) : Striped 32 :=
  let length := s.length
  let stride := (length + 31) / 32
  let data := old.data.resize stride N
  if length = 0 then Striped.empty     -- early `return`: `*striped` was taken and is never put back
  else
    let arr := s.toArray
    let (i0, data) := blockLoop junk arr stride stride 0 data
    -- `while i < matrix.rows() { for j in 0..32 { if j*src_stride + i < s.len() { matrix[i][j] = s[..] } } i += 1 }`
    let data := (List.range (stride - i0)).foldl (fun d k =>
      let i := i0 + k
      (List.range 32).foldl (fun d j =>
        if j * stride + i < length then d.set i j (arr.getD (j * stride + i) N) else d) d) data
    -- `for k in s.len()..matrix.columns() * matrix.rows() { matrix[k % src_stride][k / src_stride] = default }`
    let data := Striped.writeCells stride (fun _ => N) length (32 * stride - length) data
    ⟨data, length, 0⟩

inductive Arm | generic | sse2 | avx2
deriving DecidableEq, Repr

/-- `impl Stripe for Pipeline<A, Dispatch>`: the AVX2 arm calls the kernel, every other arm the generic loop -/
def dispatch (N : Nat) (junk : Nat → Nat) (arm : Arm) (s : List Nat) (old : Striped 32) : Striped 32 :=
  match arm with
  | .avx2 => stripe N junk s old
  | _ => Striped.stripeGeneric N s old

end StripeAvx2
end LMV
