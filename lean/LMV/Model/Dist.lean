/-
  LMV.Model.Dist — mirror model of the MEME-style score distribution.

  mirrors: lightmotif/src/pwm/dist.rs::ScoreDistribution::{sf, scale, unscale, pvalue, score, min_pvalue}
  mirrors: lightmotif/src/pwm/dist.rs::From<ScoringMatrix> for ScoreDistribution

  The model is polymorphic in the scalar `α` (the `f64` of the Rust code).  Arithmetic comes from
  the ordinary `Add/Sub/Mul/Div` instances of `α`; everything else the Rust code does with an
  `f64` (`floor`, `round … as i32`, comparisons, `min(1.0)`, the `f32` detour of `unscale`) is a
  field of `Scalar α`.  Two instances: IEEE `Float` (executed by the driver, same operation order
  as the Rust, compared bit for bit) and exact `Rat` (the theorems of LMV.Props.C11).

  Matrix cells are `Option α`: `none` is `f32::NEG_INFINITY`, `some x` a finite entry widened with
  `as f64`.  `+∞`/NaN entries are outside the model (the property demands finite non-wildcard
  entries; the harness never produces them).

  Integers (`i32`, `usize`) are `Int`/`Nat`; `w * offset` is assumed not to overflow an `i32`
  (|M·offset| < 2³¹), the only integer overflow site of the file.
-/
import LMV.Gen.Dist

namespace LMV.Dist

def I32_MIN : Int := -2147483648
def I32_MAX : Int := 2147483647

/-- saturation of Rust's float → `i32` cast -/
def clampI32 (i : Int) : Int := if i < I32_MIN then I32_MIN else if I32_MAX < i then I32_MAX else i

/-- what the Rust code does with an `f64` besides `+ - * /` -/
class Scalar (α : Type) where
  zero : α
  one : α
  /-- `i as f64` for an `i32`/`usize` -/
  ofInt : Int → α
  /-- `f64::floor` -/
  floor : α → α
  /-- `f64::round(x) as i32` (half away from zero, saturating, NaN ↦ 0) -/
  roundI32 : α → Int
  /-- `x as i32` (truncating, saturating, NaN ↦ 0) -/
  toI32 : α → Int
  /-- `f64::round((f32::NEG_INFINITY as f64 - offset) * scale) as i32` -/
  cellNegInf : (offset scale : α) → Int
  /-- `a < b`, `a <= b`, `a == b` -/
  ltb : α → α → Bool
  leb : α → α → Bool
  eqb : α → α → Bool
  /-- `p.min(1.0)` -/
  min1 : α → α
  /-- `i as f32` for an `i32` (value kept widened) -/
  ofIntF32 : Int → α
  /-- `x as f32` -/
  toF32 : α → α
  /-- `a / b` and `a + b` on `f32` operands -/
  divF32 : α → α → α
  addF32 : α → α → α
  /-- `f32::next_up` (the next representable `f32` above; NaN and `+∞` are fixed points) -/
  nextUpF32 : α → α
  /-- `f32::is_finite` -/
  isFiniteF32 : α → Bool

open Scalar

section Model
variable {α : Type} [Add α] [Sub α] [Mul α] [Div α] [Scalar α]

/-! ### containers: a vector read totally, updated in place -/

/-- `v[i]` (reads outside the vector are explicit preconditions of the theorems, never relied on) -/
@[inline] def vget (a : Array α) (i : Nat) : α := (a[i]?).getD zero

/-- `v[i] += x` -/
@[inline] def vadd (a : Array α) (i : Nat) (x : α) : Array α := a.modify i (fun y => y + x)

/-- `v[i] = x` -/
@[inline] def vset (a : Array α) (i : Nat) (x : α) : Array α := a.setIfInBounds i x

/-- `v[..n].fill(0.0)` -/
@[inline] def vfill0 (a : Array α) (n : Nat) : Array α := a.mapIdx (fun k x => if k < n then zero else x)

/-! ### `From<ScoringMatrix>`: offset, scale, integer matrix -/

/-- `pssm.matrix().iter().flatten().filter(|x| !x.is_infinite())` -/
def finiteCells (m : List (List (Option α))) : List α := m.flatten.filterMap id

/-- `Iterator::min_by(|x, y| x.partial_cmp(y).unwrap())`: the earlier of equal minima -/
def minBy : List α → Option α
  | [] => none
  | x :: xs => some (xs.foldl (fun cur y => if ltb y cur then y else cur) x)

/-- `Iterator::max_by(|x, y| x.partial_cmp(y).unwrap())`: the later of equal maxima -/
def maxBy : List α → Option α
  | [] => none
  | x :: xs => some (xs.foldl (fun cur y => if ltb y cur then cur else y) x)

/-- `if small == large { small = large - 1.0 }` -/
def adjustSmall (small large : α) : α := if eqb small large then large - one else small

/-- `let offset = small.floor()` -/
def offsetOf (small : α) : α := floor small

/-- `let scale = ((CDF_RANGE as f64) / (large - offset)).floor()` -/
def scaleOf (R : Nat) (large offset : α) : α := floor (ofInt (Int.ofNat R) / (large - offset))

/-- one cell of the integer matrix: `f64::round((src as f64 - offset) * scale) as i32` -/
def discCell (offset scale : α) : Option α → Int
  | some x => roundI32 ((x - offset) * scale)
  | none => cellNegInf offset scale

def discretize (offset scale : α) (m : List (List (Option α))) : List (List Int) :=
  m.map (fun row => row.map (discCell offset scale))

/-! ### the pdf block -/

/-- `for k in 0..n { let old = pdf_old[k]; if old != 0.0 { pdf_new[k + s] += old * b } }` -/
def convSym (pdfOld : Array α) (s : Nat) (b : α) (pdfNew : Array α) (n : Nat) : Array α :=
  (List.range n).foldl
    (fun acc k => let old := vget pdfOld k; if eqb old zero then acc else vadd acc (k + s) (old * b))
    pdfNew

/-- the body of `for a in A::symbols()`: skip `i32::MIN` cells -/
def convSyms (syms : List Nat) (bg : List α) (row : List Int) (pdfOld : Array α) (n : Nat)
    (pdfNew : Array α) : Array α :=
  syms.foldl
    (fun acc a =>
      let s := row.getD a 0
      if s = I32_MIN then acc else convSym pdfOld s.toNat (bg.getD a zero) acc n)
    pdfNew

/-- one iteration of `for (i, row) in data.iter().enumerate()`; the state is `(pdf_old, pdf_new)` -/
def convRow (R : Nat) (syms : List Nat) (bg : List α) (i : Nat) (row : List Int)
    (st : Array α × Array α) : Array α × Array α :=
  let max := i * R
  -- std::mem::swap(&mut pdf_old, &mut pdf_new)
  let pdfOld := st.2
  let pdfNew := st.1
  -- pdf_new[..=max + range].fill(0.0)
  let pdfNew := vfill0 pdfNew (max + R + 1)
  (pdfOld, convSyms syms bg row pdfOld (max + 1) pdfNew)

def convRows (R : Nat) (syms : List Nat) (bg : List α) :
    Nat → List (List Int) → Array α × Array α → Array α × Array α
  | _, [], st => st
  | i, row :: rest, st => convRows R syms bg (i + 1) rest (convRow R syms bg i row st)

/-- the `let pdf = { … }` block -/
def pdfOf (R : Nat) (syms : List Nat) (bg : List α) (data : List (List Int)) : Array α :=
  let size := data.length * R + 1
  let pdfOld : Array α := Array.replicate size zero
  let pdfNew : Array α := vset (Array.replicate size zero) 0 one
  (convRows R syms bg 0 data (pdfOld, pdfNew)).2

/-! ### the sf block -/

structure SfState (α : Type) where
  sf : Array α
  minScore : Int
  maxScore : Int

/-- body of `for i in (0..=sf.len() - 2).rev()` -/
def sfStep (i : Nat) (st : SfState α) : SfState α :=
  let p1 := vget st.sf (i + 1)
  let p0 := vget st.sf i
  let p := p0 + p1
  { sf := vset st.sf i (min1 p)
    maxScore := if st.maxScore = 0 ∧ ltb zero p1 = true then Int.ofNat i + 1 else st.maxScore
    minScore := if ltb zero p0 = true then Int.ofNat i else st.minScore }

/-- `if let Some(last) = sf.last_mut() { *last = last.min(1.0) }` -/
def clipLast (sf : Array α) : Array α := vset sf (sf.size - 1) (min1 (vget sf (sf.size - 1)))

/-- `sfLoop n` runs `i = n-1, n-2, …, 0` -/
def sfLoop : Nat → SfState α → SfState α
  | 0, st => st
  | n + 1, st => sfLoop n (sfStep n st)

/-! ### the distribution -/

structure Dist (α : Type) where
  scale : α
  offset : Int
  rows : Nat
  data : List (List Int)
  sf : Array α
  minScore : Int
  maxScore : Int

/-- `ScoreDistribution::from(pssm)`; `none` is the `.unwrap()` panic on a matrix without a finite
    cell (in particular a matrix with no rows). -/
def build (R : Nat) (syms : List Nat) (bg : List α) (m : List (List (Option α))) : Option (Dist α) :=
  match minBy (finiteCells m), maxBy (finiteCells m) with
  | some small0, some large =>
    let small := adjustSmall small0 large
    let offset := offsetOf small
    let scale := scaleOf R large offset
    let data := discretize offset scale m
    let pdf := pdfOf R syms bg data
    let st := sfLoop (pdf.size - 1) ⟨clipLast pdf, 0, 0⟩
    some { scale := scale, offset := toI32 offset, rows := m.length, data := data,
           sf := st.sf, minScore := st.minScore, maxScore := st.maxScore }
  | _, _ => none

namespace Dist

/-- `ScoreDistribution::scale` -/
def scaleScore (d : Dist α) (score : α) : Int :=
  let w : Int := Int.ofNat d.rows
  roundI32 ((score - ofInt (w * d.offset)) * d.scale)

/-- `ScoreDistribution::unscale` (an `f32` computation) -/
def unscale (d : Dist α) (score : Int) : α :=
  let w : Int := Int.ofNat d.rows
  addF32 (divF32 (ofIntF32 score) (toF32 d.scale)) (ofIntF32 (w * d.offset))

/-- `ScoreDistribution::pvalue` -/
def pvalue (d : Dist α) (score : α) : α :=
  let scaled := d.scaleScore score
  if scaled < d.minScore then vget d.sf d.minScore.toNat
  else if scaled < 0 then zero            -- `scaled as usize` of a negative `i32` exceeds every length
  else if d.sf.size ≤ scaled.toNat then zero
  else vget d.sf scaled.toNat

/-- `ScoreDistribution::min_pvalue` -/
def minPvalue (d : Dist α) : α := vget d.sf d.maxScore.toNat

/-- which branch of `ScoreDistribution::score` a p-value takes -/
inductive ScoreBranch | atMin | atMax | search
deriving DecidableEq, Repr

def scoreBranch (p : α) : ScoreBranch :=
  if leb one p then .atMin else if leb p zero then .atMax else .search

/-- `while score.is_finite() && self.scale(score) < x { score = score.next_up(); }` of `ScoreDistribution::score` (the repair of
    the `f32` round trip): `unscale` rounds to `f32`, so its result may map back to a LOWER cell of the
    table; the score is stepped up until it does not.  `fuel` bounds the steps of the model (the Rust loop
    has no bound; one or two steps are ever needed, `bumpFuel` is far above that) -/
def bump (d : Dist α) (x : Int) : Nat → α → α
  | 0, s => s
  | fuel + 1, s => if isFiniteF32 s && decide (d.scaleScore s < x) then bump d x fuel (nextUpF32 s) else s

def bumpFuel : Nat := 64

/-- `ScoreDistribution::score`, given the index `x` that `binary_search_by` returned (`Ok(x)` and
    `Err(x)` are treated alike by the Rust code) -/
def score (d : Dist α) (p : α) (x : Nat) : α :=
  match scoreBranch p with
  | .atMin => d.unscale d.minScore
  | .atMax => d.unscale d.maxScore
  | .search => d.bump (Int.ofNat x) bumpFuel (d.unscale (Int.ofNat x))

/-- Contract of `self.sf.binary_search_by(|x| pvalue.partial_cmp(x).unwrap())` on the (non-increasing)
    table: any index holding exactly `p`, or else the insertion point — every entry before it is
    `> p`, every entry from it on is `< p`.  `std` may return *any* matching index. -/
def SearchAdmissible (d : Dist α) (p : α) (x : Nat) : Prop :=
  x ≤ d.sf.size ∧
  ((x < d.sf.size ∧ eqb (vget d.sf x) p = true) ∨
   ((∀ j, j < x → ltb p (vget d.sf j) = true) ∧ (∀ j, x ≤ j → j < d.sf.size → ltb (vget d.sf j) p = true)))

/-- executable form of `SearchAdmissible` used by the driver -/
def searchAdmissibleB (d : Dist α) (p : α) (x : Nat) : Bool :=
  decide (x ≤ d.sf.size) &&
  ((decide (x < d.sf.size) && eqb (vget d.sf x) p) ||
   ((List.range x).all (fun j => ltb p (vget d.sf j)) &&
    (List.range d.sf.size).all (fun j => decide (j < x) || ltb (vget d.sf j) p)))

end Dist
end Model

/-! ### IEEE instance (executed by the driver) -/

instance : Scalar Float where
  zero := 0.0
  one := 1.0
  ofInt := Float.ofInt
  floor := Float.floor
  roundI32 x := x.round.toInt32.toInt
  toI32 x := x.toInt32.toInt
  cellNegInf offset scale := (((Float.ofBits 0xFFF0000000000000) - offset) * scale).round.toInt32.toInt
  ltb a b := decide (a < b)
  leb a b := decide (a ≤ b)
  eqb a b := a == b
  min1 p := if p < 1.0 then p else 1.0     -- `f64::min`: NaN ↦ 1.0
  ofIntF32 i := (Float32.ofInt i).toFloat
  toF32 x := x.toFloat32.toFloat
  divF32 a b := (a.toFloat32 / b.toFloat32).toFloat
  addF32 a b := (a.toFloat32 + b.toFloat32).toFloat
  nextUpF32 a :=
    let f := a.toFloat32
    let b := f.toBits
    let abs := b &&& 0x7FFFFFFF
    if f.isNaN || b == 0x7F800000 then a
    else if abs == 0 then (Float32.ofBits 1).toFloat
    else if b == abs then (Float32.ofBits (b + 1)).toFloat
    else (Float32.ofBits (b - 1)).toFloat
  isFiniteF32 a := a.toFloat32.isFinite

/-! ### exact instance (the theorems) -/

/-- round half away from zero -/
def ratRound (q : Rat) : Int := if 0 ≤ q then (q + 1 / 2).floor else -((-q + 1 / 2).floor)

/-- truncate toward zero -/
def ratTrunc (q : Rat) : Int := if 0 ≤ q then q.floor else -((-q).floor)

instance : Scalar Rat where
  zero := 0
  one := 1
  ofInt i := (i : Rat)
  floor q := (q.floor : Rat)
  roundI32 q := clampI32 (ratRound q)
  toI32 q := clampI32 (ratTrunc q)
  cellNegInf _ scale := if 0 < scale then I32_MIN else if scale < 0 then I32_MAX else 0
  ltb a b := decide (a < b)
  leb a b := decide (a ≤ b)
  eqb a b := decide (a = b)
  min1 p := if p < 1 then p else 1
  ofIntF32 i := (i : Rat)
  toF32 x := x
  divF32 a b := a / b
  addF32 a b := a + b
  nextUpF32 x := x      -- exact arithmetic: `unscale` does not round, the loop of `score` never steps
  isFiniteF32 _ := true

/-- `From<ScoringMatrix>` with the constant regenerated from dist.rs -/
def buildDefault {α : Type} [Add α] [Sub α] [Mul α] [Div α] [Scalar α]
    (syms : List Nat) (bg : List α) (m : List (List (Option α))) : Option (Dist α) :=
  build Gen.Dist.cdfRange syms bg m

end LMV.Dist
