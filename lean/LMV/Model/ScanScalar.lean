/-
  LMV.Model.ScanScalar — the scalar interface of the discretisation / scanner models (C08, C02, C03)
  and its two instances.

  * `Float32` (IEEE binary32, core Lean): the instance the compiled driver runs; compared bit for
    bit with the Rust `f32` arithmetic (`+ - * /`, `floor`, `ceil`, `as u8`, `as f32`).
  * `ERat` = `Rat` extended by `−∞` (`bot`): the exact instance the theorems are about.  `−∞` is the
    score of the wildcard column of a log-odds matrix; it is absorbing for `+`, below every finite
    value, and its image under `as u8` is `0`.

  Core Lean only.
-/
namespace LMV

/-- operations the models use on scores; each field is one Rust operator on `f32` -/
class ScanScalar (α : Type) where
  /-- `0.0` (initial value of the accumulator in `score_position`) -/
  zero : α
  /-- start value of `Iterator::sum::<f32>()` (`-0.0` in the pinned toolchain) -/
  sumInit : α
  add : α → α → α
  sub : α → α → α
  mul : α → α → α
  div : α → α → α
  /-- `a <= b` (false when either side is NaN) -/
  le : α → α → Bool
  /-- `a < b` (false when either side is NaN) -/
  lt : α → α → Bool
  /-- `x.is_nan()` (`partial_cmp(..).unwrap()` panics on it) -/
  isNaN : α → Bool
  /-- `b as f32` -/
  ofU8 : UInt8 → α
  /-- `x.floor() as u8` (saturating cast, NaN ↦ 0) -/
  floorU8 : α → UInt8
  /-- `x.ceil() as u8` (saturating cast, NaN ↦ 0) -/
  ceilU8 : α → UInt8

namespace ScanScalar
variable {α : Type} [ScanScalar α]
/-- `a >= b` -/
@[inline] def ge (a b : α) : Bool := le b a
/-- `a > b` -/
@[inline] def gt (a b : α) : Bool := lt b a
/-- `a == b` on non-NaN values -/
@[inline] def eq (a b : α) : Bool := le a b && le b a
end ScanScalar

instance : ScanScalar Float32 where
  zero := 0.0
  sumInit := Float32.ofBits 0x80000000
  add := (· + ·)
  sub := (· - ·)
  mul := (· * ·)
  div := (· / ·)
  le a b := decide (a ≤ b)
  lt a b := decide (a < b)
  isNaN x := x.isNaN
  ofU8 b := b.toFloat32
  floorU8 x := x.floor.toUInt8
  ceilU8 x := x.ceil.toUInt8

/-- rationals with `−∞` -/
inductive ERat where
  | bot : ERat
  | fin (q : Rat) : ERat
deriving DecidableEq, Repr

namespace ERat

/-- saturating cast of an integer to `u8` -/
def clampU8 (z : Int) : UInt8 :=
  if z < 0 then 0 else if 255 < z then 255 else z.toNat.toUInt8

def add : ERat → ERat → ERat
  | fin a, fin b => fin (a + b)
  | _, _ => bot

/-- `−∞ − finite = −∞`; a `−∞` subtrahend never occurs under the hypotheses of the theorems
    (IEEE would give `+∞`/NaN there) and is mapped to `bot` -/
def sub : ERat → ERat → ERat
  | fin a, fin b => fin (a - b)
  | _, _ => bot

def mul : ERat → ERat → ERat
  | fin a, fin b => fin (a * b)
  | _, _ => bot

/-- division by a finite value (the theorems assume it positive) -/
def div : ERat → ERat → ERat
  | fin a, fin b => fin (a / b)
  | _, _ => bot

def le : ERat → ERat → Bool
  | bot, _ => true
  | fin _, bot => false
  | fin a, fin b => decide (a ≤ b)

def lt : ERat → ERat → Bool
  | _, bot => false
  | bot, fin _ => true
  | fin a, fin b => decide (a < b)

def floorU8 : ERat → UInt8
  | bot => 0
  | fin q => clampU8 q.floor

def ceilU8 : ERat → UInt8
  | bot => 0
  | fin q => clampU8 q.ceil

end ERat

instance : ScanScalar ERat where
  zero := .fin 0
  sumInit := .fin 0
  add := ERat.add
  sub := ERat.sub
  mul := ERat.mul
  div := ERat.div
  le := ERat.le
  lt := ERat.lt
  isNaN _ := false
  ofU8 b := .fin (b.toNat : Rat)
  floorU8 := ERat.floorU8
  ceilU8 := ERat.ceilU8

instance : Inhabited ERat := ⟨.fin 0⟩

end LMV
