/-
  LMV.Model.Mat — the executable dense-matrix container used by every model.

  mirrors: lightmotif/src/dense.rs::DenseMatrix  (logical contents only; layout arithmetic is in
  LMV.Model.Dense)

  A matrix is an array of rows, each row a `Vector α C`.  All models and all proofs go through the
  interface `rows / get / set / resize / ofFn` and the laws proved at the end of this file; nothing
  outside this file unfolds the representation.  The compiled driver executes exactly these
  definitions, so the theorems are about the code the correspondence check runs.
-/

namespace LMV

structure Mat (α : Type) (C : Nat) where
  data : Array (Vector α C)
deriving Repr

namespace Mat

variable {α : Type} {C : Nat}

instance [DecidableEq α] : DecidableEq (Mat α C) := fun a b =>
  match a, b with
  | ⟨x⟩, ⟨y⟩ => if h : x = y then isTrue (by rw [h]) else isFalse (by intro e; cases e; exact h rfl)

/-- number of rows -/
@[inline] def rows (m : Mat α C) : Nat := m.data.size

/-- the empty matrix (`DenseMatrix::new(0)`) -/
def empty : Mat α C := ⟨#[]⟩

/-- total read; out-of-range cells read as `d` (models never rely on that value: every Rust
    out-of-range access is an explicit panic in the model that performs it). -/
@[inline] def getD (m : Mat α C) (r c : Nat) (d : α) : α :=
  match m.data[r]? with
  | some v => v[c]?.getD d
  | none => d

@[inline] def get [Inhabited α] (m : Mat α C) (r c : Nat) : α := m.getD r c default

/-- in-place cell write; a no-op when out of range (callers check the range first) -/
@[inline] def set (m : Mat α C) (r c : Nat) (x : α) : Mat α C :=
  ⟨m.data.modify r (fun v => v.setIfInBounds c x)⟩

/-- whole-row read -/
@[inline] def row (m : Mat α C) (r : Nat) (d : α) : Vector α C :=
  (m.data[r]?).getD (Vector.replicate C d)

/-- whole-row write; a no-op when out of range -/
@[inline] def setRow (m : Mat α C) (r : Nat) (v : Vector α C) : Mat α C :=
  ⟨m.data.setIfInBounds r v⟩

/-- `DenseMatrix::resize`: keep the first `n` rows, append rows filled with `d` -/
def resize (m : Mat α C) (n : Nat) (d : α) : Mat α C :=
  ⟨m.data.extract 0 n ++ Array.replicate (n - m.data.size) (Vector.replicate C d)⟩

/-- a matrix given cell by cell -/
def ofFn (n : Nat) (f : Nat → Nat → α) : Mat α C :=
  ⟨Array.ofFn (n := n) fun r => Vector.ofFn fun c => f r.val c.val⟩

/-- `DenseMatrix::fill` (logical cells) -/
def fill (m : Mat α C) (x : α) : Mat α C :=
  ⟨m.data.map fun _ => Vector.replicate C x⟩

/-- rows as lists, for printing and for the refinement to `List (List α)` -/
def toLists (m : Mat α C) : List (List α) := m.data.toList.map (·.toList)

/-! ### Laws -/

@[simp] theorem rows_empty : (empty : Mat α C).rows = 0 := rfl

@[simp] theorem rows_set (m : Mat α C) (r c : Nat) (x : α) : (m.set r c x).rows = m.rows := by
  simp [rows, set]

@[simp] theorem rows_setRow (m : Mat α C) (r : Nat) (v : Vector α C) :
    (m.setRow r v).rows = m.rows := by
  simp [rows, setRow]

@[simp] theorem rows_resize (m : Mat α C) (n : Nat) (d : α) : (m.resize n d).rows = n := by
  simp [rows, resize]; omega

@[simp] theorem rows_ofFn (n : Nat) (f : Nat → Nat → α) : (ofFn n f : Mat α C).rows = n := by
  simp [rows, ofFn]

@[simp] theorem rows_fill (m : Mat α C) (x : α) : (m.fill x).rows = m.rows := by
  simp [rows, fill]

theorem getD_of_rows_le (m : Mat α C) {r : Nat} (c : Nat) (d : α) (h : m.rows ≤ r) :
    m.getD r c d = d := by
  unfold getD rows at *
  rw [Array.getElem?_eq_none (by omega)]

theorem getD_of_cols_le (m : Mat α C) (r : Nat) {c : Nat} (d : α) (h : C ≤ c) :
    m.getD r c d = d := by
  unfold getD
  split
  · rw [Vector.getElem?_eq_none (by omega)]; rfl
  · rfl

theorem getD_set (m : Mat α C) (r c : Nat) (x : α) (r' c' : Nat) (d : α) :
    (m.set r c x).getD r' c' d =
      if r' = r ∧ c' = c ∧ r < m.rows ∧ c < C then x else m.getD r' c' d := by
  unfold getD set rows
  simp only [Array.getElem?_modify]
  by_cases hr : r = r'
  · subst hr
    by_cases hlt : r < m.data.size
    · simp only [hlt, Array.getElem?_eq_getElem, if_true, Option.map_some]
      by_cases hc : c' = c
      · subst hc
        by_cases hcc : c' < C
        · simp [hcc]
        · simp [hcc]
      · simp [hc, Ne.symm hc]
    · simp [hlt]
  · have hr' : ¬ r' = r := fun h => hr h.symm
    simp [hr, hr']

@[simp] theorem get_set [Inhabited α] (m : Mat α C) (r c : Nat) (x : α) (r' c' : Nat) :
    (m.set r c x).get r' c' =
      if r' = r ∧ c' = c ∧ r < m.rows ∧ c < C then x else m.get r' c' := getD_set ..

theorem data_resize (m : Mat α C) (n : Nat) (d : α) (r : Nat) :
    (m.resize n d).data[r]? =
      if r < n then (if r < m.rows then m.data[r]? else some (Vector.replicate C d)) else none := by
  unfold resize rows
  simp only [Array.getElem?_append, Array.size_extract, Array.getElem?_extract,
    Array.getElem?_replicate, Nat.sub_zero, Nat.zero_add]
  by_cases h1 : r < n
  · by_cases h2 : r < m.data.size
    · have h3 : r < min n m.data.size := by omega
      simp [h1, h2, h3]
    · have h3 : ¬ r < min n m.data.size := by omega
      have h4 : r - min n m.data.size < n - m.data.size := by omega
      simp [h1, h2, h3, h4]
  · have h3 : ¬ r < min n m.data.size := by omega
    have h4 : ¬ r - min n m.data.size < n - m.data.size := by omega
    simp [h1, h3, h4]

theorem getD_resize (m : Mat α C) (n : Nat) (d : α) (r c : Nat) (e : α) :
    (m.resize n d).getD r c e =
      if r < n then (if r < m.rows then m.getD r c e else if c < C then d else e) else e := by
  unfold getD
  rw [data_resize]
  by_cases h1 : r < n
  · by_cases h2 : r < m.rows
    · simp [h1, h2]
    · by_cases hc : c < C
      · simp [h1, h2, hc]
      · simp [h1, h2, hc]
  · simp [h1]

@[simp] theorem get_resize [Inhabited α] (m : Mat α C) (n : Nat) (d : α) (r c : Nat) :
    (m.resize n d).get r c =
      if r < n then (if r < m.rows then m.get r c else if c < C then d else default)
      else default := getD_resize ..

theorem getD_ofFn (n : Nat) (f : Nat → Nat → α) (r c : Nat) (e : α) :
    (ofFn n f : Mat α C).getD r c e = if r < n ∧ c < C then f r c else e := by
  unfold getD ofFn
  by_cases hr : r < n
  · by_cases hc : c < C
    · simp [hr, hc]
    · simp [hr, hc]
  · simp [hr]

@[simp] theorem get_ofFn [Inhabited α] (n : Nat) (f : Nat → Nat → α) (r c : Nat) :
    (ofFn n f : Mat α C).get r c = if r < n ∧ c < C then f r c else default := getD_ofFn ..

theorem getD_fill (m : Mat α C) (x : α) (r c : Nat) (e : α) :
    (m.fill x).getD r c e = if r < m.rows ∧ c < C then x else e := by
  unfold getD fill rows
  by_cases hr : r < m.data.size
  · by_cases hc : c < C
    · simp [hr, hc]
    · simp [hr, hc]
  · simp [hr]

@[simp] theorem get_fill [Inhabited α] (m : Mat α C) (x : α) (r c : Nat) :
    (m.fill x).get r c = if r < m.rows ∧ c < C then x else default := getD_fill ..

theorem get_of_rows_le [Inhabited α] (m : Mat α C) {r : Nat} (c : Nat) (h : m.rows ≤ r) :
    m.get r c = default := getD_of_rows_le m c default h

theorem get_of_cols_le [Inhabited α] (m : Mat α C) (r : Nat) {c : Nat} (h : C ≤ c) :
    m.get r c = default := getD_of_cols_le m r default h

/-- extensionality through the interface: two matrices with the same row count and the same cells
    are equal. -/
theorem ext [Inhabited α] {a b : Mat α C} (hr : a.rows = b.rows)
    (h : ∀ r c, r < a.rows → c < C → a.get r c = b.get r c) : a = b := by
  cases a with | mk x => cases b with | mk y =>
  congr
  apply Array.ext
  · exact hr
  · intro i h1 h2
    apply Vector.ext
    intro j hj
    have := h i j h1 hj
    simpa [get, getD, h1, h2, hj] using this

end Mat
end LMV
