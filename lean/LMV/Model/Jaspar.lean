/-
  LMV.Model.Jaspar — the JASPAR (raw) parser, the `Reader` shared by the two JASPAR flavours, and
  the renderer of well-formed JASPAR (raw) files.

  mirrors: lightmotif-io/src/jaspar/parse.rs::{counts, matrix_column, build_matrix, matrix, header, record}
           lightmotif-io/src/jaspar/mod.rs::{Reader::new, Iterator for Reader}
           lightmotif-io/src/jaspar16/mod.rs::{Reader::new, Iterator for Reader}   (same text)
           lightmotif-io/src/error.rs::From<nom::Err<..>> for Error
           lightmotif/src/pwm/mod.rs::CountMatrix::new (never fails: row sums are taken in usize)

  Outcomes: `record r | error kind | done | panic site`.  Every Rust panic site on the modelled
  path is an explicit `panic`: slice indexing `buffer[start..]`, `text.len() - rest.len()`,
  `copy_within(start.., 0)`, `matrix[i][s]`, `unreachable!()` for `nom::Err::Incomplete`.
-/
import LMV.Model.ReaderCommon

namespace LMV
namespace Jaspar

open Io Nom

/-! ### parse.rs (raw flavour) -/

/-- `counts`: `preceded(opt(space1), separated_list0(space1, u32))` -/
def counts : Parser (List Nat) := preceded (opt space1) (sepList0 space1 u32)

/-- `matrix_column`: `terminated(counts, line_ending)` -/
def matrixColumn : Parser (List Nat) := terminated counts lineEnding

/-- the loop of `build_matrix` over `input.zip(symbols)` -/
def buildLoop {K : Nat} (m : Mat Nat K) : List (List Nat × Nat) → Built Nat K
  | [] => .ok m
  | (cs, s) :: rest =>
    if cs.length ≠ m.rows then .invalid
    else match fillColumn m s 0 cs with
      | some m' => buildLoop m' rest
      | none => .panic "parse.rs: matrix[i][s.as_index()]"

/-- the `as_index()` of `[Nucleotide::A, Nucleotide::C, Nucleotide::G, Nucleotide::T]` -/
def symbols : List Nat := [0x41, 0x43, 0x47, 0x54].filterMap dna.fromAscii

/-- `build_matrix(input, symbols)`: `DenseMatrix::new(input[0].len())`, then the loop -/
def buildMatrix (cols : List (List Nat)) : Built Nat dna.K :=
  match cols with
  | [] => .panic "parse.rs: input[0]"
  | c0 :: _ => buildLoop ((Mat.empty : Mat Nat dna.K).resize c0.length 0) (cols.zip symbols)

/-- `matrix`: four `matrix_column`s, then `build_matrix`; a ragged matrix is `Err::Error(MapRes)`
    (repaired: was `unimplemented!()`).  The value is `Except site matrix` so that an index panic
    inside `build_matrix` stays visible. -/
def matrix : Parser (Except String (Mat Nat dna.K)) :=
  built (pair matrixColumn (pair matrixColumn (pair matrixColumn matrixColumn)))
    fun v => buildMatrix [v.1, v.2.1, v.2.2.1, v.2.2.2]

/-- the description: the rest of the header line, trimmed, if anything is left -/
def descOf (acc : Bytes) : Option Bytes := if (trim acc).isEmpty then none else some (trim acc)

/-- `header`: `>` id (up to ASCII whitespace), rest of the line trimmed as description -/
def header : Parser (Bytes × Option Bytes) :=
  pmap
    (pair (preceded (tag [0x3E]) (takeWhile (fun b => !isAsciiWs b)))
      (pair (takeUntilByte 0x0A) lineEnding))
    fun v => (v.1, descOf v.2.1)

/-- `record`: header, then `map_res(matrix, CountMatrix::new)` (`CountMatrix::new` never fails) -/
def record : Parser (Except String (CRecord dna.K)) :=
  pmap (pair header matrix) fun v =>
    match v.2 with
    | .ok m => .ok { id := v.1.1, description := v.1.2, matrix := m }
    | .error site => .error site

/-! ### mod.rs: the reader (shared with jaspar16) -/

structure State where
  buffer : Bytes
  start : Nat
  cap : Nat          -- `buffer.capacity()`: only decides *when* the buffer is compacted
  data : Bytes       -- bytes the underlying stream has not delivered yet
  sched : List Nat   -- chunk sizes of the deliveries to come

/-- `Reader::new`: `start = read_until(b'>', &mut buffer).unwrap_or(1).saturating_sub(1)`
    (repaired: was `- 1`, a `usize` underflow on empty input) -/
def new (grow : Nat → Nat → Nat → Nat) (sched : List Nat) (data : Bytes) : State :=
  let r := readUntil 0x3E sched data
  { buffer := r.1, start := r.1.length - 1, cap := grow 0 0 r.1.length, data := r.2.1, sched := r.2.2 }

/-- `Iterator::next` (repaired: the text is the whole unconsumed tail `buffer[start..]` and `start`
    advances by `text.len() - rest.len()`; was `buffer[start..=start+n]` / `n + 1 - rest.len()`).
    `grow cap len add` is the capacity after appending `add` bytes to a `Vec` of length `len` and
    capacity `cap` — any function: the outcome does not depend on it. -/
def next {ρ : Type} (parse : Parser (Except String ρ)) (grow : Nat → Nat → Nat → Nat) (s : State) :
    Outcome ρ × State :=
  let r := readUntil 0x3E s.sched s.data
  let n := r.1.length
  let buffer := s.buffer ++ r.1
  let cap := grow s.cap s.buffer.length n
  let s1 : State := { buffer := buffer, start := s.start, cap := cap, data := r.2.1, sched := r.2.2 }
  -- `&self.buffer[self.start..]`
  if buffer.length < s.start then (.panic "mod.rs: buffer[start..]", s1) else
  let bytes := buffer.drop s.start
  if !validUtf8 bytes then (.error .io, s1) else
  if n = 0 ∧ isBlank bytes then (.done, s1) else
  match parse bytes with
  | .ok _ (.error site) => (.panic site, s1)
  | .ok rest (.ok rec) =>
    -- `self.start += text.len() - rest.len()`
    if bytes.length < rest.length then (.panic "mod.rs: text.len() - rest.len()", s1) else
    let start := s.start + (bytes.length - rest.length)
    if start > cap / 2 then
      -- `copy_within(start.., 0)`, `truncate(len - start)`, `start = 0`
      if buffer.length < start then (.panic "mod.rs: copy_within(start..)", { s1 with start := start })
      else (.record rec, { s1 with buffer := buffer.drop start, start := 0 })
    else (.record rec, { s1 with start := start })
  | e => (ofNomErr e, s1)

/-- `Vec<u8>` growth as `RawVec::grow_amortized` does it (the driver's choice of `grow`) -/
def growAmortized (cap len add : Nat) : Nat :=
  if add ≤ cap - len then cap else max 8 (max (2 * cap) (len + add))

/-! ### renderer of well-formed files -/

def digitsAux (fuel n : Nat) (acc : Bytes) : Bytes :=
  match fuel with
  | 0 => acc
  | fuel + 1 =>
    if n < 10 then (48 + n).toUInt8 :: acc
    else digitsAux fuel (n / 10) ((48 + n % 10).toUInt8 :: acc)

/-- decimal digits of `n` -/
def digits (n : Nat) : Bytes := digitsAux (n + 1) n []

/-- counts separated by single spaces -/
def renderCounts : List Nat → Bytes
  | [] => []
  | [x] => digits x
  | x :: xs => digits x ++ 0x20 :: renderCounts xs

/-- a JASPAR (raw) motif as written: id, optional description, the A, C, G, T count lines -/
structure Src where
  id : Bytes
  description : Option Bytes
  a : List Nat
  c : List Nat
  g : List Nat
  t : List Nat

def renderHeader (id : Bytes) (d : Option Bytes) : Bytes :=
  0x3E :: id ++ (match d with | some d => 0x20 :: d | none => []) ++ [0x0A]

def render1 (r : Src) : Bytes :=
  renderHeader r.id r.description
    ++ renderCounts r.a ++ [0x0A] ++ renderCounts r.c ++ [0x0A]
    ++ renderCounts r.g ++ [0x0A] ++ renderCounts r.t ++ [0x0A]

def render (rs : List Src) : Bytes := rs.flatMap render1

/-- field conditions of a well-formed header: an id without ASCII whitespace or '>', a
    description that is non-empty, trimmed, and without line feed or '>'; both valid UTF-8 -/
def WFHeader (id : Bytes) (d : Option Bytes) : Prop :=
  (∀ b ∈ id, isAsciiWs b = false ∧ b ≠ 0x3E) ∧ validUtf8 id = true ∧
  match d with
  | none => True
  | some d => d ≠ [] ∧ trim d = d ∧ (∀ b ∈ d, b ≠ 0x0A ∧ b ≠ 0x3E) ∧ validUtf8 d = true

instance (id : Bytes) (d : Option Bytes) : Decidable (WFHeader id d) := by
  unfold WFHeader; cases d <;> infer_instance

/-- well-formed motif: header fields as above, four count lines of one length, counts in `u32` -/
def WF (r : Src) : Prop :=
  WFHeader r.id r.description ∧
  r.c.length = r.a.length ∧ r.g.length = r.a.length ∧ r.t.length = r.a.length ∧
  (∀ x ∈ r.a ++ r.c ++ r.g ++ r.t, x < 4294967296)

instance (r : Src) : Decidable (WF r) := by unfold WF; infer_instance

/-- the record a well-formed motif must be read back as: every count in the row of its position
    and the column of its symbol, the `N` column zero -/
def expect (r : Src) : CRecord dna.K :=
  { id := r.id, description := r.description,
    matrix := Mat.ofFn r.a.length fun i j =>
      if dna.fromAscii 0x41 = some j then r.a.getD i 0
      else if dna.fromAscii 0x43 = some j then r.c.getD i 0
      else if dna.fromAscii 0x47 = some j then r.g.getD i 0
      else if dna.fromAscii 0x54 = some j then r.t.getD i 0 else 0 }

end Jaspar
end LMV
