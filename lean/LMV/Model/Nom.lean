/-
  LMV.Model.Nom — ports of the `nom` 7.1.3 combinators used by the lightmotif-io parsers, as total
  functions on UTF-8 bytes.

  mirrors: nom-7.1.3/src/{bytes/complete.rs, character/complete.rs, character/streaming.rs::space1,
           combinator/mod.rs, multi/mod.rs, sequence/mod.rs, branch/mod.rs,
           number/complete.rs::{recognize_float, recognize_float_or_exceptions, float},
           traits.rs (`&str` instances)}, core::str::{trim, trim_start, trim_end}

  The parsers in lightmotif-io run on `&str`; the model runs on the UTF-8 bytes of that string (the
  readers validate the bytes first, `LMV.Io.validUtf8`).  Every decision the parsers take is about
  ASCII characters; a non-ASCII character is a sequence of bytes `≥ 0x80`, each of which answers the
  ASCII predicates the same way the character does, so the split points (and hence `rest.len()`)
  are those of nom.  The three places where a whole character matters are explicit: `anychar` and
  `take(n)` step by `charLen`, and `trim` knows the multi-byte `White_Space` characters.

  Result type: `ok rest value | err (nom::Err::Error) | fail (nom::Err::Failure) |
  incomplete (nom::Err::Incomplete)`.  Error *kinds* and positions are not modelled (lightmotif-io
  only forwards them inside `Error::Nom`).
-/
import LMV.Model.Stream

namespace LMV
namespace Nom

open Io

inductive PRes (α : Type) where
  | ok (rest : Bytes) (val : α)
  | err
  | fail
  | incomplete
deriving Repr, DecidableEq

abbrev Parser (α : Type) := Bytes → PRes α

namespace PRes
def map {α β : Type} (f : α → β) : PRes α → PRes β
  | ok r v => ok r (f v)
  | err => err
  | fail => fail
  | incomplete => incomplete

def isOk {α : Type} : PRes α → Bool
  | ok _ _ => true
  | _ => false
end PRes

/-! ### character classes -/

@[inline] def isSpace (b : UInt8) : Bool := b = 0x20 || b = 0x09          -- nom `space0/1`: ' ' '\t'
@[inline] def isDigit (b : UInt8) : Bool := 0x30 ≤ b && b ≤ 0x39
/-- `char::is_ascii_whitespace`: SP, HT, LF, FF, CR (not VT) -/
@[inline] def isAsciiWs (b : UInt8) : Bool :=
  b = 0x20 || b = 0x09 || b = 0x0A || b = 0x0C || b = 0x0D
/-- single-byte `char::is_whitespace`: U+0009..U+000D, U+0020 -/
@[inline] def isWs1 (b : UInt8) : Bool := (0x09 ≤ b && b ≤ 0x0D) || b = 0x20

/-- byte length of the UTF-8 character starting with lead byte `b` (valid text) -/
@[inline] def charLen (b : UInt8) : Nat :=
  if b < 0x80 then 1 else if b < 0xE0 then 2 else if b < 0xF0 then 3 else 4

/-! ### `str::trim` (Unicode `White_Space`) -/

/-- third byte of `E2 80 xx` White_Space characters: U+2000..U+200A, U+2028, U+2029, U+202F -/
@[inline] def isWsE280 (b : UInt8) : Bool :=
  (0x80 ≤ b && b ≤ 0x8A) || b = 0xA8 || b = 0xA9 || b = 0xAF

def trimStart : Bytes → Bytes
  | [] => []
  | b :: rest =>
    if isWs1 b then trimStart rest
    else if b = 0xC2 then
      match rest with
      | b1 :: r => if b1 = 0x85 || b1 = 0xA0 then trimStart r else b :: rest
      | [] => b :: rest
    else if b = 0xE1 then
      match rest with
      | b1 :: b2 :: r => if b1 = 0x9A && b2 = 0x80 then trimStart r else b :: rest
      | _ => b :: rest
    else if b = 0xE2 then
      match rest with
      | b1 :: b2 :: r =>
        if (b1 = 0x80 && isWsE280 b2) || (b1 = 0x81 && b2 = 0x9F) then trimStart r else b :: rest
      | _ => b :: rest
    else if b = 0xE3 then
      match rest with
      | b1 :: b2 :: r => if b1 = 0x80 && b2 = 0x80 then trimStart r else b :: rest
      | _ => b :: rest
    else b :: rest

/-- `trim_end` on the reversed bytes -/
def trimEndRev : Bytes → Bytes
  | [] => []
  | b :: rest =>
    if isWs1 b then trimEndRev rest
    else
      match rest with
      | b1 :: r1 =>
        if b1 = 0xC2 && (b = 0x85 || b = 0xA0) then trimEndRev r1
        else
          match r1 with
          | b2 :: r2 =>
            if (b2 = 0xE1 && b1 = 0x9A && b = 0x80)
               || (b2 = 0xE2 && ((b1 = 0x80 && isWsE280 b) || (b1 = 0x81 && b = 0x9F)))
               || (b2 = 0xE3 && b1 = 0x80 && b = 0x80) then trimEndRev r2
            else b :: rest
          | [] => b :: rest
      | [] => b :: rest

def trimEnd (s : Bytes) : Bytes := (trimEndRev s.reverse).reverse

/-- `str::trim` -/
def trim (s : Bytes) : Bytes := trimEnd (trimStart s)

/-- `s.trim().is_empty()` -/
def isBlank (s : Bytes) : Bool := (trimStart s).isEmpty

/-! ### `bytes::complete` -/

def tag (t : Bytes) : Parser Bytes := fun i =>
  if t.isPrefixOf i then .ok (i.drop t.length) t else .err

/-- `take_while(p)` (complete): never fails -/
def takeWhile (p : UInt8 → Bool) : Parser Bytes := fun i =>
  .ok (i.dropWhile p) (i.takeWhile p)

/-- `take_till(p)` (complete): never fails -/
def takeTill (p : UInt8 → Bool) : Parser Bytes := fun i =>
  .ok (i.dropWhile (fun b => !p b)) (i.takeWhile (fun b => !p b))

/-- `take_until("\n")` generalised to one byte `d`: error when `d` does not occur -/
def takeUntilByte (d : UInt8) : Parser Bytes := fun i =>
  if i.contains d then .ok (i.dropWhile (· != d)) (i.takeWhile (· != d)) else .err

/-- split after `n` characters (`&str::slice_index`); `none` when there are fewer -/
def splitChars : Nat → Bytes → Option (Bytes × Bytes)
  | 0, i => some ([], i)
  | _ + 1, [] => none
  | n + 1, b :: rest =>
    let l := charLen b
    match splitChars n (rest.drop (l - 1)) with
    | some (p, r) => some (b :: rest.take (l - 1) ++ p, r)
    | none => none

/-- `take(n)` on `&str`: `n` characters -/
def takeChars (n : Nat) : Parser Bytes := fun i =>
  match splitChars n i with
  | some (p, r) => .ok r p
  | none => .err

/-! ### `character::complete` / `character::streaming` -/

def space0 : Parser Bytes := takeWhile isSpace

def space1 : Parser Bytes := fun i =>
  match i with
  | b :: _ => if isSpace b then .ok (i.dropWhile isSpace) (i.takeWhile isSpace) else .err
  | [] => .err

/-- `character::streaming::space1`: `Incomplete` when no non-space character follows -/
def space1S : Parser Bytes := fun i =>
  if i.all isSpace then .incomplete
  else match i with
    | b :: _ => if isSpace b then .ok (i.dropWhile isSpace) (i.takeWhile isSpace) else .err
    | [] => .incomplete

def digit1 : Parser Bytes := fun i =>
  match i with
  | b :: _ => if isDigit b then .ok (i.dropWhile isDigit) (i.takeWhile isDigit) else .err
  | [] => .err

/-- `line_ending`: "\n" or "\r\n" -/
def lineEnding : Parser Bytes := fun i =>
  match i with
  | 0x0A :: r => .ok r [0x0A]
  | 0x0D :: 0x0A :: r => .ok r [0x0D, 0x0A]
  | _ => .err

/-- `not_line_ending`: up to the first '\r' or '\n'; a '\r' not followed by '\n' is an error -/
def notLineEnding : Parser Bytes := fun i =>
  let p := fun (b : UInt8) => !(b = 0x0D || b = 0x0A)
  match i.dropWhile p with
  | [] => .ok [] i
  | 0x0D :: r =>
    match r with
    | 0x0A :: _ => .ok (i.dropWhile p) (i.takeWhile p)
    | _ => .err
  | _ :: _ => .ok (i.dropWhile p) (i.takeWhile p)

/-- `char(c)` for an ASCII `c` -/
def char (c : UInt8) : Parser UInt8 := fun i =>
  match i with
  | b :: r => if b = c then .ok r c else .err
  | [] => .err

/-- `anychar`: the bytes of the first character -/
def anychar : Parser Bytes := fun i =>
  match i with
  | b :: r => .ok (r.drop (charLen b - 1)) (b :: r.take (charLen b - 1))
  | [] => .err

/-- `eof` -/
def eof : Parser Bytes := fun i =>
  match i with
  | [] => .ok [] []
  | _ => .err

/-- the digit loop of `character::complete::{u8,u16,u32}`: `value.checked_mul(10).checked_add(d)`
    against `bound = 2^bits`; stops at the first non-digit -/
def uintLoop (bound : Nat) : Bytes → Nat → PRes Nat
  | [], v => .ok [] v
  | b :: r, v =>
    if isDigit b then
      let v' := v * 10 + (b.toNat - 48)
      if v' < bound then uintLoop bound r v' else .err
    else .ok (b :: r) v

/-- `character::complete::uN` with `bound = 2^N`: at least one digit, no overflow -/
def uint (bound : Nat) : Parser Nat := fun i =>
  match i with
  | [] => .err
  | b :: _ => if isDigit b then uintLoop bound i 0 else .err

def u8 : Parser Nat := uint 256
def u16 : Parser Nat := uint 65536
def u32 : Parser Nat := uint 4294967296

/-! ### `combinator`, `sequence`, `branch` -/

variable {α β γ : Type}

def pmap (f : Parser α) (g : α → β) : Parser β := fun i => (f i).map g

def opt (f : Parser α) : Parser (Option α) := fun i =>
  match f i with
  | .ok r v => .ok r (some v)
  | .err => .ok i none
  | .fail => .fail
  | .incomplete => .incomplete

def alt (f g : Parser α) : Parser α := fun i =>
  match f i with
  | .err => g i
  | r => r

/-- `map_res(f, g)`: an `Err` of `g` becomes `Err::Error(MapRes)` -/
def mapRes (f : Parser α) (g : α → Option β) : Parser β := fun i =>
  match f i with
  | .ok r v =>
    match g v with
    | some w => .ok r w
    | none => .err
  | .err => .err
  | .fail => .fail
  | .incomplete => .incomplete

def pair (f : Parser α) (g : Parser β) : Parser (α × β) := fun i =>
  match f i with
  | .ok r a =>
    match g r with
    | .ok r' b => .ok r' (a, b)
    | .err => .err
    | .fail => .fail
    | .incomplete => .incomplete
  | .err => .err
  | .fail => .fail
  | .incomplete => .incomplete

def preceded (f : Parser α) (g : Parser β) : Parser β := pmap (pair f g) (·.2)
def terminated (f : Parser α) (g : Parser β) : Parser α := pmap (pair f g) (·.1)
def delimited (f : Parser α) (g : Parser β) (h : Parser γ) : Parser β :=
  preceded f (terminated g h)
def separatedPair (f : Parser α) (s : Parser β) (g : Parser γ) : Parser (α × γ) :=
  pair f (preceded s g)

/-! ### `multi` -/

/-- `count(f, k)` -/
def count (f : Parser α) : Nat → Parser (List α)
  | 0 => fun i => .ok i []
  | k + 1 => fun i =>
    match f i with
    | .ok r a =>
      match count f k r with
      | .ok r' as => .ok r' (a :: as)
      | .err => .err
      | .fail => .fail
      | .incomplete => .incomplete
    | .err => .err
    | .fail => .fail
    | .incomplete => .incomplete

/-- the `loop` of `many1`: stop at the first `Err::Error`; a parser that succeeds without consuming
    is an error (nom's infinite-loop check `i1.input_len() == len`) -/
def manyLoop (f : Parser α) (i : Bytes) (acc : List α) : PRes (List α) :=
  match f i with
  | .err => .ok i acc.reverse
  | .fail => .fail
  | .incomplete => .incomplete
  | .ok i1 o =>
    if i1.length < i.length then manyLoop f i1 (o :: acc) else .err
termination_by i.length

/-- `many1(f)` -/
def many1 (f : Parser α) : Parser (List α) := fun i =>
  match f i with
  | .err => .err
  | .fail => .fail
  | .incomplete => .incomplete
  | .ok i1 o => manyLoop f i1 [o]

/-- the `loop` of `separated_list0/1`: after each element try `sep` then `f`; an `Err::Error` of
    either ends the list *before* the separator; a separator that consumes nothing is an error -/
def sepLoop (sep : Parser β) (f : Parser α) (i : Bytes) (acc : List α) : PRes (List α) :=
  match sep i with
  | .err => .ok i acc.reverse
  | .fail => .fail
  | .incomplete => .incomplete
  | .ok i1 _ =>
    if i1.length < i.length then
      match f i1 with
      | .err => .ok i acc.reverse
      | .fail => .fail
      | .incomplete => .incomplete
      | .ok i2 o =>
        if i2.length ≤ i1.length then sepLoop sep f i2 (o :: acc) else .err
    else .err
termination_by i.length
decreasing_by omega

def sepList0 (sep : Parser β) (f : Parser α) : Parser (List α) := fun i =>
  match f i with
  | .err => .ok i []
  | .fail => .fail
  | .incomplete => .incomplete
  | .ok i1 o => sepLoop sep f i1 [o]

def sepList1 (sep : Parser β) (f : Parser α) : Parser (List α) := fun i =>
  match f i with
  | .err => .err
  | .fail => .fail
  | .incomplete => .incomplete
  | .ok i1 o => sepLoop sep f i1 [o]

/-! ### `number::complete::float` as a lexeme -/

def optSign : Bytes → Bytes
  | b :: r => if b = 0x2B || b = 0x2D then r else b :: r
  | [] => []

/-- the mantissa `digit1 ('.' digit1?)? | '.' digit1`: what follows it, `none` if absent -/
def mantissaEnd (i : Bytes) : Option Bytes :=
  match i with
  | b :: r =>
    if isDigit b then
      match i.dropWhile isDigit with
      | 0x2E :: r2 => some (r2.dropWhile isDigit)     -- '.' digit1?  (opt(digit1))
      | r1 => some r1
    else if b = 0x2E then
      match r with
      | c :: _ => if isDigit c then some (r.dropWhile isDigit) else none
      | [] => none
    else none
  | [] => none

/-- the optional exponent `[eE] [+-]? cut(digit1)`: `fail` for a marker not followed by digits -/
def exponentEnd (i : Bytes) : PRes Unit :=
  match i with
  | b :: r =>
    if b = 0x65 || b = 0x45 then
      match optSign r with
      | c :: r1 => if isDigit c then .ok ((c :: r1).dropWhile isDigit) () else .fail
      | [] => .fail
    else .ok i ()
  | [] => .ok [] ()

/-- `recognize_float`: `[+-]? (digit1 ('.' digit1?)? | '.' digit1) ([eE] [+-]? cut(digit1))?`;
    returns the input after the lexeme, `fail` for an exponent marker not followed by digits -/
def floatEnd (i : Bytes) : PRes Unit :=
  match mantissaEnd (optSign i) with
  | none => .err
  | some i2 => exponentEnd i2

@[inline] def lower (b : UInt8) : UInt8 := if 0x41 ≤ b && b ≤ 0x5A then b + 32 else b

/-- `tag_no_case` for an ASCII lower-case tag -/
def tagNoCase (t : Bytes) : Parser Bytes := fun i =>
  if t.length ≤ i.length && (i.take t.length).map lower == t then .ok (i.drop t.length) (i.take t.length)
  else .err

/-- `recognize_float_or_exceptions`: the lexeme of a float, or `nan` / `inf` (`infinity` is tried
    after `inf` and therefore never matches more than `inf`) in any case -/
def recognizeFloat : Parser Bytes := fun i =>
  match floatEnd i with
  | .ok r _ => .ok r (i.take (i.length - r.length))
  | .fail => .fail
  | .incomplete => .incomplete
  | .err =>
    alt (tagNoCase [0x6E, 0x61, 0x6E])
      (alt (tagNoCase [0x69, 0x6E, 0x66]) (tagNoCase [0x69, 0x6E, 0x66, 0x69, 0x6E, 0x69, 0x74, 0x79])) i

/-- `float`: the recognised lexeme converted by `conv` (`str::parse::<f32>`, which accepts every
    lexeme `recognize_float_or_exceptions` produces; `none` is nom's `Err::Error(Float)`) -/
def float (conv : Bytes → Option α) : Parser α := mapRes recognizeFloat conv

end Nom
end LMV
