/-
  LMV.Model.Score — mirror models of PSSM scoring.

  mirrors: lightmotif/src/pli/mod.rs::{Accumulate, Score::{score_rows_into, score_into, score}}   (trait defaults = generic backend)
           lightmotif/src/pli/platform/avx2.rs::{score_f32_avx2_permute, score_f32_avx2_gather,
             score_u8_avx2_shuffle, Avx2::score_f32_rows_into_permute, Avx2::score_f32_rows_into_gather,
             Avx2::score_f32_rows_into, Avx2::score_u8_rows_into_shuffle}
           lightmotif/src/pli/platform/sse2.rs::{score_sse2, Sse2::score_rows_into}
           lightmotif/src/pli/dispatch.rs::{impl Score<f32,..> for Pipeline<A, Dispatch>, impl Score<u8, Dna, ..>}
           lightmotif/src/scores.rs::StripedScores::{empty, resize, offset, iter, unstripe, Index}
           lightmotif/src/pwm/mod.rs::{ScoringMatrix::score, ScoringMatrix::score_position, DiscreteMatrix::score_position}

  Every model is polymorphic in the scalar: a carrier `α` with `zero` (the all-zero bit pattern:
  `T::default()`, `_mm256_setzero_ps`, …) and `add` and NO laws.  Symbols are their indices; the
  PSSM is a `Mat α K` (row `j` = motif position `j`, column = symbol index).  Panics are outcomes
  (`Except String`).

  The shuffle masks, `permute2f128` immediates, unpack chain and store offsets are NOT typed in
  here: they come from LMV.Gen.Avx2Score / LMV.Gen.Sse2Score, regenerated from the source.
-/
import LMV.Model.Seq
import LMV.Isa.Score
import LMV.Gen.Avx2Score
import LMV.Gen.Sse2Score

namespace LMV

/-- `StripedScores<T, C>` -/
structure Scores (α : Type) (C : Nat) where
  data : Mat α C
  maxIndex : Nat

namespace Score

variable {α : Type} {C K : Nat}

/-- a loop whose body may panic: stops at the first error -/
def foldE {ι β ε : Type} : List ι → (β → ι → Except ε β) → β → Except ε β
  | [], _, b => .ok b
  | x :: xs, f, b =>
    match f b x with
    | .error e => .error e
    | .ok b' => foldE xs f b'

/-- a register materialised as an array (so that the compiled model does not re-evaluate closures) -/
@[inline] def tab {β : Type} (n : Nat) (f : Nat → β) : Array β := Array.ofFn (n := n) fun i => f i.val

/-- lane `l` of register `q` of a register file -/
@[inline] def rd {β : Type} (d : β) (s : Array (Array β)) (q l : Nat) : β := (s.getD q #[]).getD l d

/-! ### the `u8` scalar, as `Nat < 256` -/

/-- wrapping `u8` addition (what the generic kernel did before `Accumulate`; kept for comparison) -/
def u8Wrap (x y : Nat) : Nat := (x + y) % 256

/-- `<u8 as Accumulate>::accumulate` = `saturating_add`, and one lane of `_mm256_adds_epu8` -/
def u8Sat (x y : Nat) : Nat := min (x + y) 255

/-! ### `StripedScores` -/

/-- `StripedScores::empty()` -/
def empty : Scores α C := ⟨Mat.empty, 0⟩

/-- `StripedScores::resize(rows, max_index)`; new rows are `T::default()` rows -/
def resize (zero : α) (sc : Scores α C) (rows maxIndex : Nat) : Scores α C :=
  ⟨sc.data.resize rows zero, maxIndex⟩

/-- `StripedScores::offset(mc)` -/
def offset (sc : Scores α C) (row col : Nat) : Nat := col * sc.data.rows + row

/-- `Iter::new`: `end = max_index.min(rows * columns)` -/
def iterEnd (sc : Scores α C) : Nat := min sc.maxIndex (sc.data.rows * C)

/-- `StripedScores::iter()` / `unstripe()`: `get(i) = data[i % rows][i / rows]` for `i < end`
    (never panics: `end = 0` when there are no rows, and `i < rows * C` gives `i / rows < C`) -/
def unstripe (zero : α) (sc : Scores α C) : List α :=
  (List.range (iterEnd sc)).map fun i => sc.data.getD (i % sc.data.rows) (i / sc.data.rows) zero

/-- `Index<usize> for StripedScores`: panics on `rows = 0` (division by zero) or an out-of-range column -/
def index (zero : α) (sc : Scores α C) (i : Nat) : Except String α :=
  if sc.data.rows = 0 then .error "div-by-zero" else
  let col := i / sc.data.rows
  let row := i % sc.data.rows
  if row < sc.data.rows ∧ col < C then .ok (sc.data.getD row col zero) else .error "index-oob"

/-! ### the generic backend (trait defaults) -/

/-- one cell: `let mut score = T::default(); for (j, pssm_row) in matrix.iter().enumerate() {
    score.accumulate(pssm_row[seq.matrix()[seq_row + j][col].as_index()]) }` — the row index panics
    when the look-ahead rows are missing; `add` is `Accumulate::accumulate` (`+` for floats,
    `saturating_add` for unsigned integers) -/
def cellGeneric (zero : α) (add : α → α → α) (pssm : Mat α K) (seq : Mat Nat C)
    (seqRow col : Nat) : Except String α :=
  foldE (List.range pssm.rows) (fun score j =>
    if seqRow + j < seq.rows then
      let sym := seq.getD (seqRow + j) col 0
      if sym < K then .ok (add score (pssm.getD j sym zero)) else .error "symbol-oob"
    else .error "row-oob") zero

/-- the two loops `for (res_row, seq_row) in rows.enumerate() { for col in 0..C { … } }` -/
def rowsGeneric (zero : α) (add : α → α → α) (pssm : Mat α K) (seq : Mat Nat C) (a n : Nat)
    (d : Mat α C) : Except String (Mat α C) :=
  foldE (List.range n) (fun d k =>
    foldE (List.range C) (fun d col =>
      match cellGeneric zero add pssm seq (a + k) col with
      | .error e => .error e
      | .ok v => .ok (d.set k col v)) d) d

/-- trait-default `Score::score_rows_into(pssm, seq, a..b, scores)` -/
def scoreRowsGeneric (zero : α) (add : α → α → α) (pssm : Mat α K) (seq : Striped C) (a b : Nat)
    (sc : Scores α C) : Except String (Scores α C) :=
  if seq.length < pssm.rows ∨ b ≤ a then .ok (resize zero sc 0 0) else
  let sc := resize zero sc (b - a) ((seq.length + 1) - pssm.rows)
  match rowsGeneric zero add pssm seq.data a (b - a) sc.data with
  | .error e => .error e
  | .ok d => .ok ⟨d, sc.maxIndex⟩

/-- the guards shared by the SIMD wrappers, in program order: `wrap < pssm.rows() - 1` panics
    (`pssm.rows() - 1` itself overflows for an empty matrix: overflow panic in dev, `usize::MAX` and
    hence the explicit panic in release); the `resize(0, 0)` exit; the row-range check
    `rows.end > seq.matrix().rows() || seq.matrix().rows() - rows.end < pssm.rows() - 1` (the kernel
    reads `pssm.rows()` consecutive rows through a raw pointer from each row of the range: it panics
    exactly where the generic backend panics on its row index); `resize`; then the kernel `run`. -/
def simdWrapper (zero : α) (pssm : Mat α K) (seq : Striped C) (a b : Nat) (sc : Scores α C)
    (run : Mat α C → Mat α C) : Except String (Scores α C) :=
  if pssm.rows = 0 then .error "sub-overflow" else
  if seq.wrap < pssm.rows - 1 then .error "not-enough-wrap" else
  if seq.length < pssm.rows ∨ b ≤ a then .ok (resize zero sc 0 0) else
  if b > seq.data.rows ∨ seq.data.rows - b < pssm.rows - 1 then .error "row-range" else
  let sc := resize zero sc (b - a) ((seq.length + 1) - pssm.rows)
  .ok ⟨run sc.data, sc.maxIndex⟩

/-! ### AVX2, `f32`: permute (K ≤ 8) and gather -/

namespace Avx2
open Isa

/-- the extracted tables of one `f32` kernel -/
structure F32Tables where
  masks : Array (Array Nat)        -- per accumulator `s1..s4`: the 32 bytes of its shuffle mask
  lanes : Array (Nat × Nat × Nat)  -- `r_k = permute2f128(s_a, s_b, imm)`
  stores : List (Nat × Nat)        -- `(offset, k)`: `stream(rowptr + offset, r_k)`, program order

def permuteTables : F32Tables :=
  ⟨(Gen.Avx2Score.permuteMasks.map List.toArray).toArray, Gen.Avx2Score.permuteLanes.toArray,
   Gen.Avx2Score.permuteStores⟩

def gatherTables : F32Tables :=
  ⟨(Gen.Avx2Score.gatherMasks.map List.toArray).toArray, Gen.Avx2Score.gatherLanes.toArray,
   Gen.Avx2Score.gatherStores⟩

/-- byte `i` of the shuffle mask of accumulator `q` -/
def maskByte (T : F32Tables) (q i : Nat) : Nat := (T.masks.getD q #[]).getD i 0

/-- `x_q = _mm256_shuffle_epi8(x, m_q)` read as dword lanes -/
def idxVec (T : F32Tables) (x : Nat → Nat) (q l : Nat) : Nat :=
  dwordLE (shuffleEpi8 0 x (maskByte T q)) l

/-- the motif loop for sequence row `i`: `s_q = add_ps(s_q, lookup(row j of the PSSM, x_q))`,
    accumulators start from `setzero` -/
def accRow (T : F32Tables) (zero : α) (add : α → α → α) (lookup : Nat → (Nat → Nat) → Nat → α)
    (M : Nat) (seq : Mat Nat 32) (i : Nat) : Array (Array α) :=
  (List.range M).foldl (fun s j =>
    let x : Nat → Nat := fun c => seq.getD (i + j) c 0     -- `_mm256_load_si256(seqptr)`
    tab 4 fun q => tab 8 fun l => add (rd zero s q l) (lookup j (idxVec T x q) l))
    (tab 4 fun _ => tab 8 fun _ => zero)

/-- lane `l` of `r_p = _mm256_permute2f128_ps(s_a, s_b, imm)` -/
def laneVal (T : F32Tables) (zero : α) (s : Array (Array α)) (p l : Nat) : α :=
  match T.lanes.getD p (0, 0, 0) with
  | (a, b, imm) => Isa.apply zero (permute2f128 imm) (rd zero s a) (rd zero s b) l

/-- the four `_mm256_stream_ps(rowptr.add(off), r_p)` of result row `k`, in program order -/
def storeRow (T : F32Tables) (zero : α) (s : Array (Array α)) (k : Nat) (d : Mat α 32) : Mat α 32 :=
  T.stores.foldl (fun d op =>
    (List.range 8).foldl (fun d l => d.set k (op.1 + l) (laneVal T zero s op.2 l)) d) d

/-- `for i in rows { … rowptr = rowptr.add(stride) }` -/
def kernel (T : F32Tables) (zero : α) (add : α → α → α) (lookup : Nat → (Nat → Nat) → Nat → α)
    (M : Nat) (seq : Mat Nat 32) (a n : Nat) (d : Mat α 32) : Mat α 32 :=
  (List.range n).foldl (fun d k => storeRow T zero (accRow T zero add lookup M seq (a + k)) k d) d

/-- `_mm256_permutevar8x32_ps(t, x_q)` with `t = _mm256_load_ps(row j)` (8 floats: the `K ≤ 8`
    entries of the row, then padding) -/
def lookupPermute (zero : α) (pssm : Mat α K) (j : Nat) (idx : Nat → Nat) (l : Nat) : α :=
  permutevar8x32 (fun k => pssm.getD j k zero) idx l

/-- `_mm256_i32gather_ps(pssmptr, x_q, 4)` with `pssmptr` at row `j` -/
def lookupGather (zero : α) (pssm : Mat α K) (j : Nat) (idx : Nat → Nat) (l : Nat) : α :=
  i32gatherPs (fun k => if 0 ≤ k then pssm.getD j k.toNat zero else zero) idx l

/-- `Avx2::score_f32_rows_into_permute` (+ `score_f32_avx2_permute`) -/
def scorePermute (zero : α) (add : α → α → α) (pssm : Mat α K) (seq : Striped 32) (a b : Nat)
    (sc : Scores α 32) : Except String (Scores α 32) :=
  if ¬ K ≤ 8 then .error "assert-K" else     -- `assert!(A::K::USIZE <= 8)`
  simdWrapper zero pssm seq a b sc
    (kernel permuteTables zero add (lookupPermute zero pssm) pssm.rows seq.data a (b - a))

/-- `Avx2::score_f32_rows_into_gather` (+ `score_f32_avx2_gather`) -/
def scoreGather (zero : α) (add : α → α → α) (pssm : Mat α K) (seq : Striped 32) (a b : Nat)
    (sc : Scores α 32) : Except String (Scores α 32) :=
  simdWrapper zero pssm seq a b sc
    (kernel gatherTables zero add (lookupGather zero pssm) pssm.rows seq.data a (b - a))

/-- `Avx2::score_f32_rows_into`: `if A::K::USIZE <= 8 { permute } else { gather }` -/
def scoreF32 (zero : α) (add : α → α → α) (pssm : Mat α K) (seq : Striped 32) (a b : Nat)
    (sc : Scores α 32) : Except String (Scores α 32) :=
  if K ≤ Gen.Avx2Score.permuteMaxK then scorePermute zero add pssm seq a b sc
  else scoreGather zero add pssm seq a b sc

/-! ### AVX2, `u8`: byte shuffle with saturating accumulation (`add` is `_mm256_adds_epu8`'s lane op) -/

/-- the motif loop of `score_u8_avx2_shuffle` for sequence row `i`:
    `t = broadcastsi128(load 16 bytes of PSSM row j)`, `y = shuffle_epi8(t, x)`, `s = adds_epu8(s, y)` -/
def accRowU8 (zero : α) (add : α → α → α) (pssm : Mat α K) (seq : Mat Nat 32) (i : Nat) : Array α :=
  (List.range pssm.rows).foldl (fun s j =>
    let x : Nat → Nat := fun c => seq.getD (i + j) c 0
    let t : Nat → α := broadcastsi128 fun k => pssm.getD j k zero
    tab 32 fun c => add (s.getD c zero) (shuffleEpi8 zero t x c))
    (tab 32 fun _ => zero)

def kernelU8 (zero : α) (add : α → α → α) (pssm : Mat α K) (seq : Mat Nat 32) (a n : Nat)
    (d : Mat α 32) : Mat α 32 :=
  (List.range n).foldl (fun d k =>
    let s := accRowU8 zero add pssm seq (a + k)
    (List.range 32).foldl (fun d c => d.set k (Gen.Avx2Score.u8StoreOffset + c) (s.getD c zero)) d) d

/-- `Avx2::score_u8_rows_into_shuffle` (+ `score_u8_avx2_shuffle`); `K ≤ 16` is a trait bound -/
def scoreU8 (zero : α) (addSat : α → α → α) (pssm : Mat α K) (seq : Striped 32) (a b : Nat)
    (sc : Scores α 32) : Except String (Scores α 32) :=
  simdWrapper zero pssm seq a b sc (kernelU8 zero addSat pssm seq.data a (b - a))

end Avx2

/-! ### SSE2 -/

namespace Sse2
open Isa

/-- where byte `b` of register `r` comes from after the unpack chain (given in REVERSE program
    order): `some k` = byte `k` of `x` (register 0), `none` = a zero byte (register 1 is `zero`) -/
def chainSrc : List (Nat × Bool × Nat × Nat) → Nat → Nat → Option Nat
  | [], r, b => if r = 0 then some b else none
  | (d, hi, ra, rb) :: earlier, r, b =>
    if r = d then
      match mmUnpackEpi8 hi b with
      | (Side.a, k) => chainSrc earlier ra k
      | (Side.b, k) => chainSrc earlier rb k
      | (Side.zero, _) => none
    else chainSrc earlier r b

def chainRev : List (Nat × Bool × Nat × Nat) := Gen.Sse2Score.chain.reverse

/-- byte `b` of register `r` after the chain, for the loaded symbols `x` -/
def regByte (x : Nat → Nat) (r b : Nat) : Nat :=
  match chainSrc chainRev r b with
  | some k => x k
  | none => 0

/-- the index vector of accumulator `q` read as dword lanes -/
def idxVec (x : Nat → Nat) (q l : Nat) : Nat := dwordLE (regByte x (Gen.Sse2Score.accReg.getD q 0)) l

/-- the motif loop of `score_sse2` for sequence row `i`, columns `offset .. offset + 16`:
    per motif position the unpack chain, then for every symbol `k` the compare-and-mask accumulation
    `s_q = add_ps(s_q, and_ps(load1(pssm[j][k]), cmpeq_epi32(x_q, set1(k))))` -/
def accRow (zero : α) (add : α → α → α) (pssm : Mat α K) (seq : Mat Nat C) (offset i : Nat) :
    Array (Array α) :=
  (List.range pssm.rows).foldl (fun s j =>
    let x : Nat → Nat := fun b => seq.getD (i + j) (offset + b) 0    -- `_mm_load_si128(dataptr)`
    let iv : Array (Array Nat) := tab 4 fun q => tab 4 fun l => idxVec x q l
    (List.range K).foldl (fun s k =>
      tab 4 fun q => tab 4 fun l =>
        add (rd zero s q l) (andPsMask zero (pssm.getD j k zero) (cmpeqEpi32 (rd 0 iv q) (fun _ => k) l))) s)
    (tab 4 fun _ => tab 4 fun _ => zero)

/-- `for offset in (0..C/16).map(|i| i * 16) { for i in rows.clone() { … 4 stores … } }` -/
def kernel (zero : α) (add : α → α → α) (pssm : Mat α K) (seq : Mat Nat C) (a n : Nat)
    (d : Mat α C) : Mat α C :=
  (List.range (C / Gen.Sse2Score.lanes)).foldl (fun d blk =>
    let offset := blk * Gen.Sse2Score.lanes
    (List.range n).foldl (fun d k =>
      let s := accRow zero add pssm seq offset (a + k)
      Gen.Sse2Score.stores.foldl (fun d op =>
        (List.range 4).foldl (fun d l => d.set k (offset + op.1 + l) (rd zero s op.2 l)) d) d) d) d

/-- `Sse2::score_rows_into` (+ `score_sse2`); `C` a multiple of 16 is a trait bound -/
def score (zero : α) (add : α → α → α) (pssm : Mat α K) (seq : Striped C) (a b : Nat)
    (sc : Scores α C) : Except String (Scores α C) :=
  simdWrapper zero pssm seq a b sc (kernel zero add pssm seq.data a (b - a))

end Sse2

/-! ### the runtime dispatcher, `score_into`, `score`, `score_position` -/

inductive Arm | generic | sse2 | avx2
deriving DecidableEq, Repr

/-- `impl Score<f32, A, U32> for Pipeline<A, Dispatch>` -/
def dispatchF32 (arm : Arm) (zero : α) (add : α → α → α) (pssm : Mat α K) (seq : Striped 32)
    (a b : Nat) (sc : Scores α 32) : Except String (Scores α 32) :=
  match arm with
  | .avx2 => Avx2.scoreF32 zero add pssm seq a b sc
  | .sse2 => Sse2.score zero add pssm seq a b sc
  | .generic => scoreRowsGeneric zero add pssm seq a b sc

/-- `impl Score<u8, Dna, U32> for Pipeline<Dna, Dispatch>`: only the AVX2 arm has a kernel; `add` is
    the generic `+=`, `addSat` the saturating lane addition -/
def dispatchU8 (arm : Arm) (zero : α) (add addSat : α → α → α) (pssm : Mat α K) (seq : Striped 32)
    (a b : Nat) (sc : Scores α 32) : Except String (Scores α 32) :=
  match arm with
  | .avx2 => Avx2.scoreU8 zero addSat pssm seq a b sc
  | _ => scoreRowsGeneric zero add pssm seq a b sc

/-- trait-default `Score::score_into` around any `score_rows_into`:
    `rows = s.matrix().rows() - s.wrap(); score_rows_into(pssm, s, 0..rows, scores)` -/
def scoreInto (rowsInto : Nat → Nat → Scores α C → Except String (Scores α C)) (seq : Striped C)
    (sc : Scores α C) : Except String (Scores α C) :=
  if seq.data.rows < seq.wrap then .error "sub-overflow" else
  rowsInto 0 (seq.data.rows - seq.wrap) sc

/-- trait-default `Score::score`: `score_into` on `StripedScores::empty()` -/
def scoreFull (rowsInto : Nat → Nat → Scores α C → Except String (Scores α C)) (seq : Striped C) :
    Except String (Scores α C) :=
  scoreInto rowsInto seq empty

/-- `ScoringMatrix::score_position` / `DiscreteMatrix::score_position`:
    `for (j, row) in data.iter().enumerate() { score += row[s[pos + j].as_index()] }` -/
def scorePosition (zero : α) (add : α → α → α) (pssm : Mat α K) (seq : Striped C) (pos : Nat) :
    Except String α :=
  foldE (List.range pssm.rows) (fun score j =>
    match seq.index (pos + j) with
    | .error e => .error e
    | .ok sym => if sym < K then .ok (add score (pssm.getD j sym zero)) else .error "symbol-oob") zero

end Score
end LMV
