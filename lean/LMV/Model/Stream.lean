/-
  LMV.Model.Stream — a `BufRead` that delivers its bytes in chunks of scheduled sizes, and std's
  `read_until` / `read_line` over it.

  mirrors: std::io::BufRead::{read_until, read_line}  (library/std/src/io/mod.rs: `read_until`,
           `append_to_string`), std::str::from_utf8 (validity only), the harness'
           `ChunkedReader: BufRead` (harness/src/c14.rs)

  The stream is the list of bytes not yet delivered plus a *schedule* of chunk sizes.  `fill_buf`
  returns the next `max c 1` bytes (fewer at the end of the data) where `c` is the head of the
  schedule; `consume m` with `m` smaller than the chunk leaves the remainder of the chunk at the head
  of the schedule (what `BufReader` does with a partially consumed buffer).  An exhausted schedule
  delivers everything that is left in one chunk.  End of file is sticky by construction: once the
  data is `[]`, `fill_buf` returns the empty slice for ever.
-/
namespace LMV
namespace Io

abbrev Bytes := List UInt8

/-- the bytes through the first `d` inclusive; everything if `d` does not occur -/
def through (d : UInt8) : Bytes → Bytes
  | [] => []
  | b :: bs => if b = d then [b] else b :: through d bs

/-- what follows the first `d`; nothing if `d` does not occur -/
def after (d : UInt8) : Bytes → Bytes
  | [] => []
  | b :: bs => if b = d then bs else after d bs

/-- `memchr(d, &data[..k])`: index of the first `d` among the first `k` bytes -/
def memchrWithin (d : UInt8) : Nat → Bytes → Option Nat
  | 0, _ => none
  | _ + 1, [] => none
  | k + 1, b :: bs => if b = d then some 0 else (memchrWithin d k bs).map (· + 1)

/-- `read_until(d, buf)`: loop { available = fill_buf(); match memchr(d, available) { Some(i) =>
    extend(available[..=i]), consume(i+1), done; None => extend(available), consume(len) };
    if done || used == 0 { return } }.
    Returns (bytes appended to `buf`, data left in the stream, schedule left).  The number returned
    by `read_until` is the length of the first component. -/
def readUntil (d : UInt8) : List Nat → Bytes → Bytes × Bytes × List Nat
  | [], data => (through d data, after d data, [])
  | c :: cs, data =>
    match data with
    | [] => ([], [], c :: cs)                       -- fill_buf returned an empty slice: used == 0
    | _ :: _ =>
      let k := max c 1                              -- `available = &data[..min(k, len)]`
      match memchrWithin d k data with
      | some i => (data.take (i + 1), data.drop (i + 1), if i + 1 < k then (k - (i + 1)) :: cs else cs)
      | none =>
        let r := readUntil d cs (data.drop k)
        (data.take k ++ r.1, r.2.1, r.2.2)

/-! ### UTF-8 validity (Unicode 15 table 3-7, what `core::str::from_utf8` accepts) -/

@[inline] def isCont (b : UInt8) : Bool := 0x80 ≤ b && b ≤ 0xBF

def validUtf8 : Bytes → Bool
  | [] => true
  | b0 :: rest =>
    if b0 < 0x80 then validUtf8 rest
    else if 0xC2 ≤ b0 && b0 ≤ 0xDF then
      match rest with
      | b1 :: rest => isCont b1 && validUtf8 rest
      | _ => false
    else if 0xE0 ≤ b0 && b0 ≤ 0xEF then
      match rest with
      | b1 :: b2 :: rest =>
        (if b0 = 0xE0 then 0xA0 ≤ b1 && b1 ≤ 0xBF
         else if b0 = 0xED then 0x80 ≤ b1 && b1 ≤ 0x9F
         else isCont b1) && isCont b2 && validUtf8 rest
      | _ => false
    else if 0xF0 ≤ b0 && b0 ≤ 0xF4 then
      match rest with
      | b1 :: b2 :: b3 :: rest =>
        (if b0 = 0xF0 then 0x90 ≤ b1 && b1 ≤ 0xBF
         else if b0 = 0xF4 then 0x80 ≤ b1 && b1 ≤ 0x8F
         else isCont b1) && isCont b2 && isCont b3 && validUtf8 rest
      | _ => false
    else false

/-- `read_line(buf: &mut String)` = `append_to_string(buf, |b| read_until(r, b'\n', b))`: the bytes
    are read (and consumed from the stream) first; if the appended part is not valid UTF-8 the
    string is left unchanged and `Err(InvalidData)` is returned.
    Returns (`some appended` for `Ok(appended.len())` / `none` for the error, data left, schedule). -/
def readLine (sched : List Nat) (data : Bytes) : Option Bytes × Bytes × List Nat :=
  let r := readUntil 10 sched data
  (if validUtf8 r.1 then some r.1 else none, r.2.1, r.2.2)

end Io
end LMV
