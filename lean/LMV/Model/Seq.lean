/-
  LMV.Model.Seq — striped sequences.

  mirrors: lightmotif/src/seq.rs::StripedSequence::{new, configure, configure_wrap, Index, count_symbol(s)}
           lightmotif/src/pli/mod.rs::Stripe::{stripe, stripe_into}          (generic)
  Symbols are their indices (`as_index`); `N` is the alphabet's default symbol (the wildcard).
-/
import LMV.Model.Mat

namespace LMV

/-- `StripedSequence<A, C>`: the matrix, the sequence length and the number of wrap rows -/
structure Striped (C : Nat) where
  data : Mat Nat C
  length : Nat
  wrap : Nat

namespace Striped

variable {C : Nat}

/-- `StripedSequence::default()` — also what `std::mem::take` leaves behind -/
def empty : Striped C := ⟨Mat.empty, 0, 0⟩

/-- sequence rows (`data.rows() - wrap`) -/
@[inline] def seqRows (st : Striped C) : Nat := st.data.rows - st.wrap

/-- cell write loop `for i in lo..hi { data[i % rows][i / rows] = f i }` -/
def writeCells (rows : Nat) (f : Nat → Nat) (lo n : Nat) (data : Mat Nat C) : Mat Nat C :=
  (List.range n).foldl (fun d k => let i := lo + k; d.set (i % rows) (i / rows) (f i)) data

/-- trait-default `Stripe::stripe_into` (generic backend), `s` the encoded sequence -/
def stripeGeneric (N : Nat) (s : List Nat) (old : Striped C) : Striped C :=
  let length := s.length
  let rows := (length + (C - 1)) / C
  -- `std::mem::take(striped).into_matrix()`, `reserve`, `resize(rows)`
  let data := old.data.resize rows N
  -- `for (i, &x) in s.iter().enumerate() { data[i % rows][i / rows] = x; }`
  let arr := s.toArray          -- O(1) reads; `arr.getD i N = s.getD i N`
  let data := writeCells rows (fun i => arr.getD i N) 0 length data
  -- `for i in s.len()..data.rows() * data.columns() { data[i % rows][i / rows] = default }`
  let data := writeCells rows (fun _ => N) length (rows * C - length) data
  -- `StripedSequence::new(data, length).unwrap()`  (rows*C >= length always holds: no panic)
  ⟨data, length, 0⟩

/-- `configure_wrap(m)`; the inner loops read `data[i][j+1]` from the matrix being written, exactly
    as the Rust does (for `i >= rows` that row was written earlier in the same loop) -/
def configureWrap (N : Nat) (m : Nat) (st : Striped C) : Striped C :=
  if m > st.wrap then
    let rows := st.data.rows - st.wrap
    let data := st.data.resize (st.data.rows + m - st.wrap) N
    let data := (List.range m).foldl (fun d i =>
      let d := (List.range (C - 1)).foldl (fun d j => d.set (rows + i) j (d.get i (j + 1))) d
      d.set (rows + i) (C - 1) N) data
    ⟨data, st.length, m⟩
  else st

/-- `configure(&pssm)`: `if !motif.is_empty() { configure_wrap(motif.len() - 1) }` -/
def configure (N : Nat) (motifLen : Nat) (st : Striped C) : Striped C :=
  if motifLen ≠ 0 then configureWrap N (motifLen - 1) st else st

/-- `Index<usize>`: panics on division by zero (`rows = 0`) or on an out-of-range row/column -/
def index (st : Striped C) (i : Nat) : Except String Nat :=
  let rows := st.data.rows - st.wrap
  if rows = 0 then .error "div-by-zero" else
  let col := i / rows
  let row := i % rows
  if row < st.data.rows ∧ col < C then .ok (st.data.get row col) else .error "index-oob"

/-- `count_symbol` -/
def countSymbol (st : Striped C) (sym : Nat) : Nat :=
  let rows := st.data.rows - st.wrap
  (List.range rows).foldl (fun cnt i =>
    (List.range C).foldl (fun cnt j =>
      if j * rows + i < st.length ∧ st.data.get i j = sym then cnt + 1 else cnt) cnt) 0

/-- `count_symbols` (as a function of the symbol index, `K` entries) -/
def countSymbols (K : Nat) (st : Striped C) : List Nat :=
  let rows := st.data.rows - st.wrap
  (List.range rows).foldl (fun cnts i =>
    (List.range C).foldl (fun cnts j =>
      if j * rows + i < st.length then
        let a := st.data.get i j
        cnts.set a (cnts.getD a 0 + 1)
      else cnts) cnts) (List.replicate K 0)

end Striped
end LMV
