/-
  LMV.Model.Sampler — mirror model of the Gibbs sampler's integer state machine.

  mirrors: lightmotif/src/sampler.rs::BitVec::{zeros, ones, test, set, unset}
           lightmotif/src/sampler.rs::SamplerData::new
           lightmotif/src/sampler.rs::Sampler::{_new, select_holdout, include_sequence,
                                                exclude_sequence, prepare_pssm, update_holdout}
           lightmotif/src/sampler.rs::<Sampler as Iterator>::next
           lightmotif/src/sampler.rs::Sampler::{active_sequences, active_starts, count_matrix}
           lightmotif/src/seq.rs::<StripedSequence as SymbolCount>::count_symbols
           lightmotif/src/abc.rs::Background::from_counts   (only its `total == 0 → Err` test)

  What is modelled.  The sampler's *integer* state (`motif`, `background_counts`, `starts`, `active`,
  `seed`, `step`, `last_inclusion`, `converged`) and every in-place update of it, statement by
  statement, with every panic site on the path (`Vec`/`GenericArray`/`DenseMatrix` indexing,
  `usize`/`u32` underflow of `-=` under overflow checks, `from_counts(..).unwrap()`,
  `seed.choose(..).unwrap()`, `Uniform::new(0, 0)`, `panic!("booh")`) as `Except.error site`.

  What is an *input* of the model.  Everything the code derives from the random generator or from
  floating-point arithmetic:
    * `InitChoice.starts`  — `rng.sample(Uniform::new(0, len - width + 1))` per sequence,
    * `InitChoice.seeds`   — `rand::seq::index::sample(rng, n, min(initial, n))`,
    * `Choice.z`           — `select_holdout` (`seed.choose` / `Uniform::new(0, n)`),
    * `Choice.start`       — `WeightedIndex::new(weights)` then `dist.sample(rng)`:
                             `some v` with `v <` number of weights `= L_z - w + 1`, or `none` when
                             `WeightedIndex::new` fails (`starts[z]` is then left unchanged),
    * `Choice.discard`     — `newpssm.information_content() < pssm.information_content()`.
  The constraints the code puts on them are the predicates `InitAdm` / `Adm` below.

  A `StripedSequence` is modelled by its logical symbol list: `seq[k]` for `k < len` is the `k`-th
  symbol (that is C04's statement about striping; here it is an assumption carried by the
  correspondence run).  `count_symbols` is mirrored on the striped walk (`index = j*rows + i`).

  Core Lean only.
-/
import LMV.Model.Mat

namespace LMV
namespace Sampler

/-- result of a modelled Rust function: `ok` or a panic site -/
abbrev R := Except String

/-- `for i in 0..n { s = f(i, s)? }` -/
def forUp {σ : Type} : Nat → (Nat → σ → R σ) → σ → R σ
  | 0, _, s => .ok s
  | n + 1, f, s =>
    match forUp n f s with
    | .ok t => f n t
    | .error e => .error e

/-! ### counters (`GenericArray<usize, K>`), motif cells (`DenseMatrix<u32, K>`) -/

/-- `a[i] += x` -/
def addAt (a : Array Nat) (i x : Nat) : R (Array Nat) :=
  if i < a.size then .ok (a.setIfInBounds i (a.getD i 0 + x)) else .error "index"

/-- `a[i] -= x` (`usize` subtraction: underflow is a panic under overflow checks) -/
def subAt (a : Array Nat) (i x : Nat) : R (Array Nat) :=
  if i < a.size then
    if x ≤ a.getD i 0 then .ok (a.setIfInBounds i (a.getD i 0 - x)) else .error "underflow"
  else .error "index"

/-- `m[MatrixCoordinates::new(r, c)] += 1` -/
def incCell {K : Nat} (m : Mat Nat K) (r c : Nat) : R (Mat Nat K) :=
  if r < m.rows ∧ c < K then .ok (m.set r c (m.get r c + 1)) else .error "index"

/-- `m[MatrixCoordinates::new(r, c)] -= 1` -/
def decCell {K : Nat} (m : Mat Nat K) (r c : Nat) : R (Mat Nat K) :=
  if r < m.rows ∧ c < K then
    if 1 ≤ m.get r c then .ok (m.set r c (m.get r c - 1)) else .error "underflow"
  else .error "index"

/-- `seq[k].as_index()` on the logical sequence -/
def symAt (seq : Array Nat) (k : Nat) : R Nat :=
  if k < seq.size then .ok (seq.getD k 0) else .error "seq-index"

/-- sum of a counter (`counts.iter().sum::<usize>()`) -/
def total (a : Array Nat) : Nat := a.foldl (· + ·) 0

/-! ### `BitVec` -/

structure Bits where
  data : Array Bool
  count : Nat
deriving Repr, DecidableEq

namespace Bits

def zeros (n : Nat) : Bits := ⟨Array.replicate n false, 0⟩
def ones (n : Nat) : Bits := ⟨Array.replicate n true, n⟩

@[inline] def len (b : Bits) : Nat := b.data.size

/-- `self.data[i]` -/
def test (b : Bits) (i : Nat) : R Bool :=
  if i < b.data.size then .ok (b.data.getD i false) else .error "index"

/-- `if !self.data[i] { self.data[i] = true; self.count += 1 }` -/
def set (b : Bits) (i : Nat) : R Bits :=
  if i < b.data.size then
    if b.data.getD i false then .ok b else .ok ⟨b.data.setIfInBounds i true, b.count + 1⟩
  else .error "index"

/-- `if self.data[i] { self.data[i] = false; self.count -= 1 }` -/
def unset (b : Bits) (i : Nat) : R Bits :=
  if i < b.data.size then
    if b.data.getD i false then
      if 1 ≤ b.count then .ok ⟨b.data.setIfInBounds i false, b.count - 1⟩ else .error "underflow"
    else .ok b
  else .error "index"

end Bits

/-! ### data -/

/-- `SamplerData` (logical view): the sequences, the cached per-sequence symbol counts, and the
    number of wrap rows each striped sequence was configured with. -/
structure Data where
  seqs : Array (Array Nat)
  counts : Array (Array Nat)
  wraps : Array Nat
deriving Repr

namespace Data
@[inline] def n (D : Data) : Nat := D.seqs.size
@[inline] def seq (D : Data) (i : Nat) : Array Nat := D.seqs.getD i #[]
@[inline] def cnt (D : Data) (i : Nat) : Array Nat := D.counts.getD i #[]
end Data

/-- `count_symbols` of a striped sequence with `C` columns:
    `rows = data.rows() - wrap` (`= ⌈l / C⌉`, fixed by `Stripe::stripe`);
    `for i in 0..rows { for j in 0..C { index = j*rows + i; if index < l { counts[row[j]] += 1 } } }`
    where `row[j] = data[i][j]` holds symbol `index` of the sequence. -/
def countSymbols (K C : Nat) (seq : Array Nat) : R (Array Nat) :=
  let l := seq.size
  let rows := (l + (C - 1)) / C
  forUp rows (fun i cnt =>
    forUp C (fun j cnt =>
      let index := j * rows + i
      if index < l then addAt cnt (seq.getD index 0) 1 else .ok cnt) cnt)
    (Array.replicate K 0)

/-- `sequences.iter().map(count_symbols).collect()` -/
def countAll (K C : Nat) : List (Array Nat) → R (List (Array Nat))
  | [] => .ok []
  | s :: ss =>
    match countSymbols K C s with
    | .error e => .error e
    | .ok c =>
      match countAll K C ss with
      | .error e => .error e
      | .ok cs => .ok (c :: cs)

/-- `SamplerData::new` -/
def mkData (K C : Nat) (seqs : Array (Array Nat)) (wraps : Array Nat) : R Data :=
  match countAll K C seqs.toList with
  | .error e => .error e
  | .ok cs => .ok ⟨seqs, cs.toArray, wraps⟩

/-! ### parameters, state, choices -/

structure Params where
  w : Nat
  zoops : Bool
  initial : Nat
  inertia : Nat
  patience : Nat
deriving Repr

structure State (K : Nat) where
  starts : Array Nat
  active : Bits
  seed : List Nat
  motif : Mat Nat K
  bg : Array Nat
  step : Nat
  lastInclusion : Nat
  converged : Bool

/-- the random draws of `_new` -/
structure InitChoice where
  starts : Array Nat
  seeds : List Nat

/-- the random draws and the floating-point decision of one `next` -/
structure Choice where
  z : Nat
  start : Option Nat
  discard : Bool
deriving Repr, DecidableEq

/-- what `next` yields (`pssm` is floating point and not modelled) -/
structure Iteration (K : Nat) where
  counts : Mat Nat K
  n : Nat
  z : Nat
  step : Nat

/-! ### `_new` -/

/-- the `Zoops` arm: `for i in sample(..) { active.set(i); seed.push(i); }` -/
def seedLoop : List Nat → Bits → List Nat → R (Bits × List Nat)
  | [], b, seed => .ok (b, seed)
  | i :: is, b, seed =>
    match b.set i with
    | .error e => .error e
    | .ok b' => seedLoop is b' (seed ++ [i])

/-- one window into the motif: `for (j, k) in (start..start+w).enumerate() { motif[(j, seq[k])] += 1 }` -/
def addWindow {K : Nat} (seq : Array Nat) (start w : Nat) (m : Mat Nat K) : R (Mat Nat K) :=
  forUp w (fun j m =>
    match symAt seq (start + j) with
    | .error e => .error e
    | .ok c => incCell m j c) m

/-- `for (i, j) in (start..start+w).enumerate() { motif[(i, seq[j])] -= 1 }` -/
def subWindow {K : Nat} (seq : Array Nat) (start w : Nat) (m : Mat Nat K) : R (Mat Nat K) :=
  forUp w (fun j m =>
    match symAt seq (start + j) with
    | .error e => .error e
    | .ok c => decCell m j c) m

/-- `for symbol in 0..K { bg[symbol] += counts[symbol] }` -/
def addCounts (K : Nat) (counts : Array Nat) (bg : Array Nat) : R (Array Nat) :=
  forUp K (fun c b => if c < counts.size then addAt b c (counts.getD c 0) else .error "index") bg

/-- `for symbol in 0..K { bg[symbol] -= counts[symbol] }` -/
def subCounts (K : Nat) (counts : Array Nat) (bg : Array Nat) : R (Array Nat) :=
  forUp K (fun c b => if c < counts.size then subAt b c (counts.getD c 0) else .error "index") bg

/-- `for j in start..start+w { bg[seq[j]] -= 1 }` -/
def bgSubWindow (seq : Array Nat) (start w : Nat) (bg : Array Nat) : R (Array Nat) :=
  forUp w (fun j b =>
    match symAt seq (start + j) with
    | .error e => .error e
    | .ok c => subAt b c 1) bg

/-- `for j in start..start+w { bg[seq[j]] += 1 }` -/
def bgAddWindow (seq : Array Nat) (start w : Nat) (bg : Array Nat) : R (Array Nat) :=
  forUp w (fun j b =>
    match symAt seq (start + j) with
    | .error e => .error e
    | .ok c => addAt b c 1) bg

/-- `for symbol in 0..K { bg[symbol] += counts[symbol] }` then
    `for j in start..start+w { bg[seq[j]] -= 1 }`: adds the symbols outside the window -/
def addOutside (K : Nat) (counts seq : Array Nat) (start w : Nat) (bg : Array Nat) : R (Array Nat) :=
  match addCounts K counts bg with
  | .error e => .error e
  | .ok b1 => bgSubWindow seq start w b1

/-- `Sampler::_new`.  The motif loop and the background loop run over all sequences in order and
    touch the active ones. -/
def init {K : Nat} (D : Data) (P : Params) (ic : InitChoice) : R (State K) :=
  -- `if data.sequences.iter().any(|x| x.wrap() < width) { panic!("booh") }`
  if D.wraps.any (· < P.w) then .error "booh" else
  -- `Uniform::new(0, seq.len() - width + 1)`: `len - width` underflows when `len < width`
  if D.seqs.any (·.size < P.w) then .error "underflow" else
  -- the drawn starts, one per sequence
  if ic.starts.size ≠ D.n ∨ D.counts.size ≠ D.n then .error "shape" else
  let starts := ic.starts
  match (if P.zoops then seedLoop ic.seeds (Bits.zeros D.n) [] else .ok (Bits.ones D.n, [])) with
  | .error e => .error e
  | .ok (active, seed) =>
    match forUp D.n (fun i m =>
        if active.data.getD i false then addWindow (D.seq i) (starts.getD i 0) P.w m else .ok m)
        (Mat.ofFn P.w (fun _ _ => 0)) with
    | .error e => .error e
    | .ok motif =>
      match forUp D.n (fun i b =>
          if active.data.getD i false then
            addOutside K (D.cnt i) (D.seq i) (starts.getD i 0) P.w b
          else .ok b)
          (Array.replicate K 0) with
      | .error e => .error e
      | .ok bg =>
        .ok { starts := starts, active := active, seed := seed, motif := motif, bg := bg,
              step := 0, lastInclusion := 0, converged := false }

/-! ### one iteration -/

/-- `select_holdout`: the drawn index is `z`; the panic sites are `seed.choose(..).unwrap()` on an
    empty seed list and `Uniform::new(0, 0)`. -/
def selectHoldout {K : Nat} (P : Params) (s : State K) (z : Nat) : R Nat :=
  if P.zoops ∧ s.step < P.inertia then
    if s.seed.isEmpty then .error "choose-empty" else .ok z
  else
    if s.starts.size = 0 then .error "uniform-empty" else .ok z

/-- `include_sequence` -/
def includeSequence {K : Nat} (D : Data) (w : Nat) (s : State K) (z : Nat) : R (State K) :=
  -- `let seq = &sequences[z]; let start = self.starts[z]; let counts = &self.data.counts[z];`
  if ¬ (z < D.seqs.size ∧ z < s.starts.size ∧ z < D.counts.size) then .error "index" else
  let seq := D.seq z
  let start := s.starts.getD z 0
  let counts := D.cnt z
  match s.active.test z with
  | .error e => .error e
  | .ok true => .ok s
  | .ok false =>
    match addWindow seq start w s.motif with
    | .error e => .error e
    | .ok motif =>
      match addCounts K counts s.bg with
      | .error e => .error e
      | .ok b1 =>
        match bgSubWindow seq start w b1 with
        | .error e => .error e
        | .ok b2 =>
          match s.active.set z with
          | .error e => .error e
          | .ok act => .ok { s with motif := motif, bg := b2, active := act }

/-- `exclude_sequence` -/
def excludeSequence {K : Nat} (D : Data) (w : Nat) (s : State K) (z : Nat) : R (State K) :=
  if ¬ (z < D.seqs.size ∧ z < s.starts.size ∧ z < D.counts.size) then .error "index" else
  let seq := D.seq z
  let start := s.starts.getD z 0
  let counts := D.cnt z
  match s.active.test z with
  | .error e => .error e
  | .ok false => .ok s
  | .ok true =>
    match subWindow seq start w s.motif with
    | .error e => .error e
    | .ok motif =>
      match bgAddWindow seq start w s.bg with
      | .error e => .error e
      | .ok b1 =>
        match subCounts K counts b1 with
        | .error e => .error e
        | .ok b2 =>
          match s.active.unset z with
          | .error e => .error e
          | .ok act => .ok { s with motif := motif, bg := b2, active := act }

/-- the integer part of `prepare_pssm`: `background()` unwraps `from_counts` (error iff the counts
    sum to zero); `count_matrix()` is `(motif.clone(), active.count())`. -/
def preparePssm {K : Nat} (s : State K) : R (Mat Nat K × Nat) :=
  if total s.bg = 0 then .error "background-empty" else .ok (s.motif, s.active.count)

/-- `update_holdout`: `if let Ok(dist) = WeightedIndex::new(weights) { starts[z] = dist.sample(rng) }` -/
def updateHoldout {K : Nat} (s : State K) (z : Nat) (start : Option Nat) : State K :=
  match start with
  | some v => { s with starts := s.starts.setIfInBounds z v }
  | none => s

/-- the `Zoops && !active` tail of `next` -/
def zoopsTail {K : Nat} (D : Data) (P : Params) (s : State K) (z : Nat) (wasActive discard : Bool) :
    R (State K) :=
  if P.zoops ∧ ¬ wasActive then
    match preparePssm s with
    | .error e => .error e
    | .ok _ =>
      match (if discard then excludeSequence D P.w s z
             else .ok { s with lastInclusion := s.step }) with
      | .error e => .error e
      | .ok s4 =>
        -- `self.step - self.last_inclusion > self.patience`
        if s4.step < s4.lastInclusion then .error "underflow" else
        if s4.step - s4.lastInclusion > P.patience then .ok { s4 with converged := true } else .ok s4
  else .ok s

/-- `Iterator::next`: `none` is the fused end of the iterator -/
def next {K : Nat} (D : Data) (P : Params) (s : State K) (c : Choice) :
    R (Option (State K × Iteration K)) :=
  if s.converged then .ok none else
  match selectHoldout P s c.z with
  | .error e => .error e
  | .ok z =>
    match s.active.test z with
    | .error e => .error e
    | .ok wasActive =>
      match excludeSequence D P.w s z with
      | .error e => .error e
      | .ok s1 =>
        match preparePssm s1 with
        | .error e => .error e
        | .ok cm =>
          let s2 := updateHoldout s1 z c.start
          match includeSequence D P.w s2 z with
          | .error e => .error e
          | .ok s3 =>
            match zoopsTail D P s3 z wasActive c.discard with
            | .error e => .error e
            | .ok s4 =>
              .ok (some ({ s4 with step := s4.step + 1 },
                         { counts := cm.1, n := cm.2, z := z, step := s4.step }))

/-! ### public accessors -/

/-- `active_sequences` -/
def activeSequences {K : Nat} (s : State K) : List Nat :=
  (List.range s.active.data.size).filter (fun i => s.active.data.getD i false)

/-- `active_starts` -/
def activeStarts {K : Nat} (s : State K) : List Nat :=
  (activeSequences s).map (fun i => s.starts.getD i 0)

/-! ### admissible choices: exactly the constraints the code puts on its random draws -/

/-- `_new`: one start per sequence, `start < len - w + 1`; the seeds are distinct indices `< n`,
    `min(initial, n)` of them (contract of `rand::seq::index::sample`). -/
def InitAdm (D : Data) (P : Params) (ic : InitChoice) : Prop :=
  ic.starts.size = D.n ∧ (∀ i, i < D.n → ic.starts.getD i 0 + P.w ≤ (D.seq i).size) ∧
  (P.zoops = true → (∀ i ∈ ic.seeds, i < D.n) ∧ ic.seeds.Nodup ∧ ic.seeds.length = min P.initial D.n)

instance (D : Data) (P : Params) (ic : InitChoice) : Decidable (InitAdm D P ic) := by
  unfold InitAdm; exact inferInstance

/-- `next`: `z` comes from the seed list while `step < inertia` in Zoops mode and from `0..n`
    otherwise; a drawn start is an index into the `L_z - w + 1` weights. -/
def StartOk (w L : Nat) : Option Nat → Prop
  | some v => v + w ≤ L
  | none => True

instance (w L : Nat) (o : Option Nat) : Decidable (StartOk w L o) := by
  cases o <;> (unfold StartOk; exact inferInstance)

def Adm {K : Nat} (D : Data) (P : Params) (s : State K) (c : Choice) : Prop :=
  (if P.zoops ∧ s.step < P.inertia then c.z ∈ s.seed else c.z < D.n) ∧
  StartOk P.w (D.seq c.z).size c.start

instance {K : Nat} (D : Data) (P : Params) (s : State K) (c : Choice) : Decidable (Adm D P s c) := by
  unfold Adm; exact inferInstance

/-! ### runs -/

/-- the trace of a run: the state after every step and what each step yielded.  Stops at the end
    of the choice stream, at the fused end of the iterator, or at a panic. -/
inductive Stop | exhausted | finished | panic (site : String)
deriving Repr, DecidableEq

def run {K : Nat} (D : Data) (P : Params) :
    State K → List Choice → List (State K × Iteration K) × Stop
  | _, [] => ([], .exhausted)
  | s, c :: cs =>
    match next D P s c with
    | .error e => ([], .panic e)
    | .ok none => ([], .finished)
    | .ok (some (s', it)) =>
      let (tr, st) := run D P s' cs
      ((s', it) :: tr, st)

end Sampler
end LMV
