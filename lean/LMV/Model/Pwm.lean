/-
  LMV.Model.Pwm — mirror models of the count → frequency → weight → log-odds conversions.

  mirrors: lightmotif/src/pwm/mod.rs::CountMatrix::{new, from_sequences, to_freq}
           lightmotif/src/pwm/mod.rs::FrequencyMatrix::{new, to_weight, to_scoring, into_scoring}
           lightmotif/src/pwm/mod.rs::WeightMatrix::{rescale, to_scoring, to_scoring_with_base}
           lightmotif/src/pwm/mod.rs::ScoringMatrix::{min_score, max_score, score_position}
           lightmotif/src/abc.rs::Background::{new, from_counts, from_sequence, from_sequences, uniform}
           lightmotif/src/abc.rs::Pseudocounts::{from(f32), from(array)}
           lightmotif/src/seq.rs::SymbolCount::{count_symbol, count_symbols} (slice / EncodedSequence)

  Conventions.  A matrix is a `Mat α K` (K = alphabet size, the wildcard is column `K-1`); it is
  built with `Mat.ofFn`/`set` and read with `Mat.get` only.  Background frequencies and
  pseudocounts are read through functions `Nat → α` (the driver passes `fun j => l.getD j zero`);
  the constructors that validate or build them work on the `K`-element list.  `InvalidData` is the
  outcome `.error ()`; a panic (`partial_cmp(..).unwrap()` on NaN in `min_score`/`max_score`) is
  `.error site`.  `A::symbols()` enumerates the indices `0..K` in order (C05.tables_*, re-checked in
  Props/C09), so a loop `for c in A::symbols()` that writes cell `c.as_index()` is a loop over
  `List.range K`.
-/
import LMV.Model.Mat
import LMV.Model.PwmScalar

namespace LMV
namespace Pwm

variable {α : Type} {K : Nat}

/-! ### sums -/

/-- `iter().sum::<f32>()` over `f 0, …, f (n-1)`: a left fold from the neutral element of
    `impl Sum for f32` -/
def sumRange [Arith α] (n : Nat) (f : Nat → α) : α :=
  (List.range n).foldl (fun acc j => add acc (f j)) sumZero

/-- `iter().sum::<usize>()` -/
def natSum (n : Nat) (f : Nat → Nat) : Nat :=
  (List.range n).foldl (fun acc j => acc + f j) 0

/-! ### symbol counting (seq.rs) -/

/-- `count_symbol`: `iter().filter(|&&c| c == symbol).count()` -/
def countSymbol (seq : List Nat) (a : Nat) : Nat := (seq.filter (· == a)).length

/-- `count_symbols` of a slice / `EncodedSequence`: `for c in data { counts[c.as_index()] += 1 }` -/
def countSymbolsFn (seq : List Nat) : Nat → Nat :=
  seq.foldl (fun cnt c => fun j => if j = c then cnt j + 1 else cnt j) (fun _ => 0)

def countSymbols (K : Nat) (seq : List Nat) : List Nat := (List.range K).map (countSymbolsFn seq)

/-! ### CountMatrix -/

structure Counts (K : Nat) where
  data : Mat Nat K
  /-- `sequence_count()` -/
  n : Nat

/-- the inner loop of `from_sequences`: `for (i, x) in seq.into_iter().enumerate() { d[i][x] += 1 }` -/
def addSeq (d : Mat Nat K) : Nat → List Nat → Mat Nat K
  | _, [] => d
  | i, x :: xs => addSeq (d.set i x (d.get i x + 1)) (i + 1) xs

/-- the outer loop of `from_sequences`; `data` is the `Option<DenseMatrix>` of the Rust -/
def fromSeqsLoop : Option (Mat Nat K) → Nat → List (List Nat) → Except Unit (Option (Mat Nat K) × Nat)
  | data, n, [] => .ok (data, n)
  | data, n, s :: rest =>
    let d : Mat Nat K := match data with
      | some d => d
      | none => (Mat.empty : Mat Nat K).resize s.length 0   -- `DenseMatrix::new(seq.len())`
    if s.length ≠ d.rows then .error ()
    else fromSeqsLoop (some (addSeq d 0 s)) (n + 1) rest

/-- `CountMatrix::from_sequences` -/
def fromSequences (seqs : List (List Nat)) : Except Unit (Counts K) :=
  match fromSeqsLoop (K := K) none 0 seqs with
  | .error e => .error e
  | .ok (none, n) => .ok ⟨Mat.empty, n⟩
  | .ok (some m, n) => .ok ⟨m, n⟩

/-- `CountMatrix::new`: never rejects; `n` is the largest row sum (0 for the empty matrix) -/
def countNew (data : Mat Nat K) : Counts K :=
  if data.rows = 0 then ⟨data, 0⟩
  else ⟨data, ((List.range data.rows).map fun i => natSum K (data.get i)).foldl max 0⟩

/-- `CountMatrix::to_freq`: per row, `dst[j] = x as f32 + p[j]`, `s = dst.iter().sum()`,
    `dst[j] /= s` -/
def toFreq [Arith α] (c : Mat Nat K) (p : Nat → α) : Mat α K :=
  Mat.ofFn c.rows fun i j =>
    let dst : Nat → α := fun j => add (Arith.ofNat (c.get i j)) (p j)
    div (dst j) (sumRange K dst)

/-! ### FrequencyMatrix -/

/-- `FrequencyMatrix::new`: every row sums to one within 0.01 -/
def freqNew [Inhabited α] [Arith α] (data : Mat α K) : Except Unit (Mat α K) :=
  if (List.range data.rows).all
      (fun i => Arith.lt (Arith.abs (sub (sumRange K (data.get i)) one)) hundredth)
  then .ok data else .error ()

/-- `FrequencyMatrix::to_weight` (background already resolved) -/
def toWeight [Inhabited α] [Arith α] (m : Mat α K) (bg : Nat → α) : Mat α K :=
  Mat.ofFn m.rows fun i j =>
    if Arith.beq (bg j) zero then zero else div (m.get i j) (bg j)

/-- `FrequencyMatrix::into_scoring` / `to_scoring` (= `clone().into_scoring`) -/
def intoScoring [Inhabited α] [Arith α] [Logs α] (m : Mat α K) (bg : Nat → α) : Mat α K :=
  Mat.ofFn m.rows fun i j =>
    if Arith.beq (bg j) zero then negInf else log2 (div (m.get i j) (bg j))

/-! ### WeightMatrix -/

/-- the `match base { 2.0 => log2, 10.0 => log10, _ => item.log(base) }`;
    `f32::log(self, base)` is `self.ln() / base.ln()` -/
def logBase [Arith α] [Logs α] (base x : α) : α :=
  if Arith.beq base (Arith.ofNat 2) then log2 x
  else if Arith.beq base (Arith.ofNat 10) then log10 x
  else div (ln x) (ln base)

/-- `WeightMatrix::to_scoring_with_base` -/
def toScoringWithBase [Inhabited α] [Arith α] [Logs α] (w : Mat α K) (base : α) : Mat α K :=
  Mat.ofFn w.rows fun i j => logBase base (w.get i j)

/-- `WeightMatrix::to_scoring` -/
def toScoring [Inhabited α] [Arith α] [Logs α] (w : Mat α K) : Mat α K :=
  toScoringWithBase w (Arith.ofNat 2)

/-- `b.frequencies() != self.background.frequencies()` (slice comparison) -/
def bgDiffers [Arith α] (K : Nat) (new old : Nat → α) : Bool :=
  !(List.range K).all (fun j => Arith.beq (new j) (old j))

/-- `WeightMatrix::rescale` (new background already resolved): the data of the result.
    (After `fix: WeightMatrix::rescale keeps the zero odds-ratio convention …`: a column whose new
    background frequency is zero gets the odds-ratio zero; before the fix it was
    `w * (old / 0)`, i.e. NaN in the wildcard column of every rescaled matrix.) -/
def rescale [Inhabited α] [Arith α] (w : Mat α K) (old new : Nat → α) : Mat α K :=
  if bgDiffers K new old then
    Mat.ofFn w.rows fun i j =>
      if Arith.beq (new j) zero then zero else mul (w.get i j) (div (old j) (new j))
  else w

/-! ### ScoringMatrix -/

/-- `Iterator::reduce` with the closure of `min_by` / `max_by`:
    `match compare(&x, &y) { Greater => …, _ => … }`, `partial_cmp(..).unwrap()` panicking on `None` -/
def reduceBy [Arith α] (keepY : Ordering → Bool) : α → List α → Except String α
  | x, [] => .ok x
  | x, y :: ys =>
    match pcmp x y with
    | none => .error "partial_cmp"
    | some o => reduceBy keepY (if keepY o then y else x) ys

/-- `min_by`: `Greater => y, _ => x` (first of equal minima) -/
def minKeepY (o : Ordering) : Bool := o == .gt
/-- `max_by`: `Greater => x, _ => y` (last of equal maxima) -/
def maxKeepY (o : Ordering) : Bool := o != .gt

/-- `row[..K-1].iter().{min,max}_by(..).unwrap()` -/
def rowExt [Inhabited α] [Arith α] (keepY : Ordering → Bool) (m : Mat α K) (i : Nat) :
    Except String α :=
  match (List.range (K - 1)).map (m.get i) with
  | [] => .error "unwrap"
  | x :: xs => reduceBy keepY x xs

/-- `.map(row ↦ …).sum()` over the rows, stopping at the first panic -/
def sumRows [Arith α] (g : Nat → Except String α) : List Nat → α → Except String α
  | [], acc => .ok acc
  | i :: is, acc =>
    match g i with
    | .error e => .error e
    | .ok v => sumRows g is (add acc v)

/-- `ScoringMatrix::min_score` -/
def minScore [Inhabited α] [Arith α] (m : Mat α K) : Except String α :=
  sumRows (rowExt minKeepY m) (List.range m.rows) sumZero

/-- `ScoringMatrix::max_score` -/
def maxScore [Inhabited α] [Arith α] (m : Mat α K) : Except String α :=
  sumRows (rowExt maxKeepY m) (List.range m.rows) sumZero

/-- `ScoringMatrix::score_position` on a sequence given symbol by symbol (`seq pos'` is symbol
    `pos'`; the caller guarantees `pos + M ≤ L`): `score = 0.0; for (j,row) { score += row[s[pos+j]] }` -/
def scorePosition [Inhabited α] [Arith α] (m : Mat α K) (seq : Nat → Nat) (pos : Nat) : α :=
  (List.range m.rows).foldl (fun acc j => add acc (m.get j (seq (pos + j)))) zero

/-! ### Background and Pseudocounts (abc.rs) -/

/-- the loop of `Background::new`: range test, then `sum += f` -/
def bgNewLoop [Arith α] : List α → α → Except Unit α
  | [], sum => .ok sum
  | f :: fs, sum =>
    if !(Arith.le zero f && Arith.le f one) then .error ()
    else bgNewLoop fs (add sum f)

/-- `Background::new` -/
def bgNew [Arith α] (fs : List α) : Except Unit (List α) :=
  match bgNewLoop fs zero with
  | .error e => .error e
  | .ok sum => if !(Arith.beq sum one) then .error () else .ok fs

/-- `Background::from_counts` -/
def bgFromCounts [Arith α] (K : Nat) (counts : Nat → Nat) : Except Unit (List α) :=
  let total := natSum K counts
  if total = 0 then .error ()
  else .ok ((List.range K).map fun j => div (Arith.ofNat (counts j)) (Arith.ofNat total))

/-- `Background::from_sequence`: the wildcard (`dflt`) is counted only when `unknown` -/
def bgFromSequence [Arith α] (K dflt : Nat) (seq : List Nat) (unknown : Bool) : Except Unit (List α) :=
  bgFromCounts K fun c => if unknown || c != dflt then countSymbol seq c else 0

/-- `Background::from_sequences` -/
def bgFromSequences [Arith α] (K dflt : Nat) (seqs : List (List Nat)) (unknown : Bool) :
    Except Unit (List α) :=
  bgFromCounts K <|
    seqs.foldl (fun cnt seq => fun c => if unknown || c != dflt then cnt c + countSymbol seq c else cnt c)
      (fun _ => 0)

/-- `Background::uniform` -/
def bgUniform [Arith α] (K dflt : Nat) : List α :=
  (List.range K).map fun i => if i != dflt then div one (Arith.ofNat (K - 1)) else zero

/-- `Pseudocounts::from(f32)` -/
def pseudoUniform [Arith α] (K dflt : Nat) (c : α) : List α :=
  (List.range K).map fun i => if i != dflt then c else zero

/-- read a `K`-array given as a list -/
def fnOf [Arith α] (l : List α) : Nat → α := fun j => l.getD j zero

end Pwm
end LMV
