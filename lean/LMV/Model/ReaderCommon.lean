/-
  LMV.Model.ReaderCommon — what the four reader models share: outcomes, error kinds, the
  conversion of nom errors, the column-filling loop of the `build_matrix` functions.

  mirrors: lightmotif-io/src/error.rs::{Error, From<nom::Err<..>> for Error}
           lightmotif-io/src/{jaspar16,uniprobe}/parse.rs::{symbol, build_matrix}
-/
import LMV.Model.Nom
import LMV.Model.Abc
import LMV.Model.Mat

namespace LMV
namespace Io

inductive ErrKind where
  | invalidData   -- Error::InvalidData
  | io            -- Error::Io   (only "decoding error" / invalid UTF-8 arises from an in-memory stream)
  | nom           -- Error::Nom
deriving DecidableEq, Repr

inductive Outcome (ρ : Type) where
  | record (r : ρ)
  | error (k : ErrKind)
  | done
  | panic (site : String)
deriving Repr

namespace Outcome
def isPanic {ρ : Type} : Outcome ρ → Bool
  | panic _ => true
  | _ => false
def isRecord {ρ : Type} : Outcome ρ → Bool
  | record _ => true
  | _ => false
end Outcome

/-- `Error::from(nom::Err<..>)`: `Incomplete => unreachable!()` -/
def ofNomErr {α ρ : Type} : Nom.PRes α → Outcome ρ
  | .incomplete => .panic "error.rs: unreachable!() for nom::Err::Incomplete"
  | _ => .error .nom

/-- a record of the two JASPAR formats -/
structure CRecord (K : Nat) where
  id : Bytes
  description : Option Bytes
  matrix : Mat Nat K


/-- `for (i, x) in counts.into_iter().enumerate() { matrix[i][s] = x }`, rows `i, i+1, …`;
    `none` is the index panic of `matrix[i][s]` -/
def fillColumn {α : Type} {K : Nat} (m : Mat α K) (s : Nat) : Nat → List α → Option (Mat α K)
  | _, [] => some m
  | i, x :: xs => if i < m.rows ∧ s < K then fillColumn (m.set i s x) s (i + 1) xs else none

/-- result of a `build_matrix`: `Ok`, `Err(InvalidData)`, or an index panic -/
inductive Built (α : Type) (K : Nat) where
  | ok (m : Mat α K)
  | invalid
  | panic (site : String)

/-- a parser followed by a `build_matrix`: `Err(InvalidData)` becomes `Err::Error(MapRes)`; an index
    panic inside `build_matrix` stays visible as `Except.error site` -/
def built {α β : Type} {K : Nat} (f : Nom.Parser α) (g : α → Built β K) :
    Nom.Parser (Except String (Mat β K)) := fun i =>
  match f i with
  | .ok r v =>
    match g v with
    | .ok m => .ok r (.ok m)
    | .invalid => .err
    | .panic site => .ok r (.error site)
  | .err => .err
  | .fail => .fail
  | .incomplete => .incomplete

/-- `symbol::<A>`: `map_res(anychar, A::Symbol::from_char)`; `from_char` rejects non-ASCII -/
def symbol (A : Alphabet) : Nom.Parser Nat :=
  Nom.mapRes Nom.anychar fun cs =>
    match cs with
    | [b] => if b < 0x80 then A.fromAscii b else none
    | _ => none

/-- the loop of `build_matrix::<A>` of jaspar16 / uniprobe over `(symbol, column)` pairs with the
    `done` flags (a `Vec<bool>` of length `K`, as the list of symbols seen) -/
def buildSymLoop {α : Type} {K : Nat} (m : Mat α K) (done : List Nat) :
    List (Nat × List α) → Built α K
  | [] => .ok m
  | (s, cs) :: rest =>
    if K ≤ s then .panic "parse.rs: done[s.as_index()]"
    else if done.contains s then .invalid
    else if cs.length ≠ m.rows then .invalid
    else match fillColumn m s 0 cs with
      | some m' => buildSymLoop m' (s :: done) rest
      | none => .panic "parse.rs: matrix[i][s.as_index()]"

end Io
end LMV
