/-
  LMV.Model.Uniprobe — the UniPROBE parser and line-at-a-time reader, and the renderer of
  well-formed UniPROBE files.

  mirrors: lightmotif-io/src/uniprobe/parse.rs::{symbol, frequencies, matrix_column, build_matrix, id}
           lightmotif-io/src/uniprobe/mod.rs::{Reader::new, Iterator for Reader}
           lightmotif/src/pwm/mod.rs::FrequencyMatrix::new  (as the parameter `freqOk`)

  The scalar type `α` of the matrix is a parameter: `conv` is `str::parse::<f32>` on a float
  lexeme, `freqOk` the test "every row sums to 1 within 0.01" of `FrequencyMatrix::new`.  The
  driver instantiates them with IEEE `Float32`; the theorems hold for every instance.
-/
import LMV.Model.ReaderCommon
import LMV.Lemmas.Stream

namespace LMV
namespace Uniprobe

open Io Nom

variable {α : Type}

/-- `frequencies`: `many1(preceded(tab, float))` -/
def frequencies (conv : Bytes → Option α) : Parser (List α) :=
  many1 (preceded (char 0x09) (float conv))

/-- `matrix_column`: `terminated(separated_pair(symbol, char(':'), frequencies), line_ending)` -/
def matrixColumn (A : Alphabet) (conv : Bytes → Option α) : Parser (Nat × List α) :=
  terminated (separatedPair (symbol A) (char 0x3A) (frequencies conv)) lineEnding

/-- `build_matrix` (repaired: an empty column list is `Err(InvalidData)`; was `input[0]`) -/
def buildMatrix (A : Alphabet) (zero : α) (input : List (Nat × List α)) : Built α A.K :=
  match input with
  | [] => .invalid
  | (_, c0) :: _ => buildSymLoop ((Mat.empty : Mat α A.K).resize c0.length zero) [] input

/-- `id`: `map(terminated(not_line_ending, line_ending), str::trim)` -/
def idLine : Parser Bytes := pmap (terminated notLineEnding lineEnding) trim

structure URecord (α : Type) (K : Nat) where
  id : Bytes
  matrix : Mat α K

structure State where
  buffer : Bytes     -- the `String` holding the pending line
  line : Bool        -- whether `buffer` holds an unconsumed non-blank line
  data : Bytes
  sched : List Nat

def new (sched : List Nat) (data : Bytes) : State :=
  { buffer := [], line := false, data := data, sched := sched }

/-- result of `while !self.line { read_line … }` -/
inductive Adv where
  | ioErr (buffer data : Bytes) (sched : List Nat)    -- `Err(e)` of `read_line` (invalid UTF-8)
  | eof (buffer data : Bytes) (sched : List Nat)      -- `Ok(0)`
  | found (buffer data : Bytes) (sched : List Nat)    -- a non-blank line is in `buffer`

theorem readLine_lt (sched : List Nat) (data l : Bytes) (h : (readLine sched data).1 = some l)
    (hl : l ≠ []) : (readLine sched data).2.1.length < data.length := by
  obtain ⟨h1, h2⟩ := readLine_eq sched data
  rw [h2]
  rw [h1] at h
  have hl' : through 10 data = l := by
    split at h
    · exact Option.some.inj h
    · cases h
  have := congrArg List.length (through_append_after 10 data)
  have hpos : 0 < (through 10 data).length := by
    rw [hl']; exact List.length_pos_iff.mpr hl
  simp at this
  omega

/-- `while !self.line { match read_line(&mut buffer) { Err => return, Ok(0) => stop, Ok(_) =>
    if !buffer.trim().is_empty() { line = true } else { buffer.clear() } } }` -/
def advance (buffer : Bytes) (sched : List Nat) (data : Bytes) : Adv :=
  match h : (readLine sched data).1 with
  | none => .ioErr buffer (readLine sched data).2.1 (readLine sched data).2.2
  | some l =>
    if hl : l = [] then .eof buffer (readLine sched data).2.1 (readLine sched data).2.2
    else if !isBlank (buffer ++ l) then
      .found (buffer ++ l) (readLine sched data).2.1 (readLine sched data).2.2
    else advance [] (readLine sched data).2.2 (readLine sched data).2.1
termination_by data.length
decreasing_by exact readLine_lt sched data l h hl

def Adv.data : Adv → Bytes
  | .ioErr _ d _ => d
  | .eof _ d _ => d
  | .found _ d _ => d

theorem advance_le (buffer : Bytes) (sched : List Nat) (data : Bytes) :
    (advance buffer sched data).data.length ≤ data.length ∧
    (∀ b d s, advance buffer sched data = .found b d s → d.length < data.length) := by
  induction h : data.length using Nat.strongRecOn generalizing buffer sched data with
  | _ n ih =>
    subst h
    have hle : (readLine sched data).2.1.length ≤ data.length := by
      obtain ⟨_, h2⟩ := readLine_eq sched data
      have := congrArg List.length (through_append_after 10 data)
      simp at this
      rw [h2]; omega
    unfold advance
    split
    · exact ⟨hle, by intro b d s h; cases h⟩
    · rename_i l hl
      by_cases hnil : l = []
      · simp only [hnil, dite_true]
        exact ⟨hle, by intro b d s h; cases h⟩
      · simp only [hnil, dite_false]
        have hlt := readLine_lt sched data l hl hnil
        split
        · refine ⟨hle, ?_⟩
          intro b d s h
          cases h
          exact hlt
        · obtain ⟨h1, h2⟩ := ih _ hlt [] (readLine sched data).2.2 (readLine sched data).2.1 rfl
          refine ⟨by omega, ?_⟩
          intro b d s h
          have := h2 b d s h
          omega

/-- result of the `loop` that collects the matrix lines of one record -/
inductive Cols (α : Type) where
  | ioErr (data : Bytes) (sched : List Nat)
  | stop (cols : List (Nat × List α)) (buffer : Bytes) (line : Bool) (data : Bytes) (sched : List Nat)

/-- `loop { while !line { read_line … Ok(0) => break … } match matrix_column(&buffer) { Err(_) =>
    break, Ok((_, column)) => { columns.push(column); buffer.clear(); line = false } } }`; every
    iteration starts with `line = false` and an empty buffer -/
def columnsLoop (A : Alphabet) (conv : Bytes → Option α) (acc : List (Nat × List α))
    (sched : List Nat) (data : Bytes) : Cols α :=
  match h : advance [] sched data with
  | .ioErr _ d s => .ioErr d s
  | .eof b d s =>
    -- `matrix_column("")` is an error: leave the loop with nothing pending
    .stop acc b false d s
  | .found b d s =>
    match matrixColumn A conv b with
    | .ok _ col => columnsLoop A conv (acc ++ [col]) s d
    | _ => .stop acc b true d s
termination_by data.length
decreasing_by exact (advance_le [] sched data).2 b d s h

/-- `Iterator::next`; `freqOk` is the check of `FrequencyMatrix::new` -/
def next (A : Alphabet) (conv : Bytes → Option α) (zero : α) (freqOk : Mat α A.K → Bool)
    (s : State) : Outcome (URecord α A.K) × State :=
  -- advance to the first line with content
  let pending : Adv :=
    if s.line then .found s.buffer s.data s.sched else advance s.buffer s.sched s.data
  match pending with
  | .ioErr b d sc => (.error .io, { buffer := b, line := false, data := d, sched := sc })
  | .eof b d sc => (.done, { buffer := b, line := false, data := d, sched := sc })
  | .found b d sc =>
    -- parse id
    match idLine b with
    | .ok _ id =>
      -- `self.line = false; self.buffer.clear();` then the columns
      match columnsLoop A conv [] sc d with
      | .ioErr d' sc' => (.error .io, { buffer := [], line := false, data := d', sched := sc' })
      | .stop cols b' line' d' sc' =>
        let st : State := { buffer := b', line := line', data := d', sched := sc' }
        match buildMatrix A zero cols with
        | .panic site => (.panic site, st)
        | .invalid => (.error .invalidData, st)
        | .ok m =>
          if freqOk m then (.record { id := id, matrix := m }, st) else (.error .invalidData, st)
    | e => (ofNomErr e, { buffer := b, line := true, data := d, sched := sc })

/-! ### renderer -/

/-- a UniPROBE motif as written: the id line and the symbol lines in file order, each with the
    lexemes of its frequencies -/
structure Src where
  id : Bytes
  cols : List (Nat × List Bytes)

def renderCol (A : Alphabet) (c : Nat × List Bytes) : Bytes :=
  A.letters.getD c.1 0 :: 0x3A :: c.2.flatMap (fun lex => 0x09 :: lex) ++ [0x0A]

def render1 (A : Alphabet) (r : Src) : Bytes :=
  r.id ++ [0x0A] ++ r.cols.flatMap (renderCol A) ++ [0x0A]

def render (A : Alphabet) (rs : List Src) : Bytes := rs.flatMap (render1 A)

/-- a plain decimal lexeme: digits, optionally followed by `.` and digits -/
def wfLex (lex : Bytes) : Bool :=
  !(lex.takeWhile isDigit).isEmpty &&
  match lex.dropWhile isDigit with
  | [] => true
  | 0x2E :: fp => fp.all isDigit
  | _ => false

/-- well-formed id line: starts with an ASCII non-blank character, is trimmed, has no line break,
    is valid UTF-8, and cannot be taken for a matrix line (its second byte is not `:`) -/
def WFId (id : Bytes) : Prop :=
  (match id with
   | b :: _ => b < 0x80 ∧ isWs1 b = false
   | [] => False) ∧
  trim id = id ∧ (∀ b ∈ id, b ≠ 0x0A ∧ b ≠ 0x0D) ∧ validUtf8 id = true ∧ (id.drop 1).head? ≠ some 0x3A

instance (id : Bytes) : Decidable (WFId id) := by
  unfold WFId; cases id <;> infer_instance

/-- the matrix a well-formed motif must be read back as: the value of every lexeme in the row of
    its position and the column of its symbol, other columns `zero` -/
def expectMatrix (A : Alphabet) (conv : Bytes → Option α) (zero : α) (r : Src) : Mat α A.K :=
  Mat.ofFn (r.cols.headD (0, [])).2.length fun i j =>
    match r.cols.find? (·.1 == j) with
    | some c => ((c.2.getD i []) |> conv).getD zero
    | none => zero

/-- well-formed motif: id line as above; at least one symbol line; symbols of the alphabet,
    pairwise distinct, in any order; lines of one length `≥ 1`; plain decimal lexemes that `conv`
    accepts; rows that pass the frequency test of `FrequencyMatrix::new` -/
def WF (A : Alphabet) (conv : Bytes → Option α) (zero : α) (freqOk : Mat α A.K → Bool) (r : Src) : Prop :=
  WFId r.id ∧ r.cols ≠ [] ∧ (∀ c ∈ r.cols, c.1 < A.K) ∧ (r.cols.map (·.1)).Nodup ∧
  (∀ c ∈ r.cols, c.2.length = (r.cols.headD (0, [])).2.length) ∧
  0 < (r.cols.headD (0, [])).2.length ∧
  (∀ c ∈ r.cols, ∀ lex ∈ c.2, wfLex lex = true ∧ (conv lex).isSome = true) ∧
  freqOk (expectMatrix A conv zero r) = true

instance (A : Alphabet) (conv : Bytes → Option α) (zero : α) (freqOk : Mat α A.K → Bool) (r : Src) :
    Decidable (WF A conv zero freqOk r) := by unfold WF; infer_instance

def expect (A : Alphabet) (conv : Bytes → Option α) (zero : α) (r : Src) : URecord α A.K :=
  { id := r.id, matrix := expectMatrix A conv zero r }

end Uniprobe
end LMV
