/-
  LMV.Model.Jaspar16 — the JASPAR (2016) parser and the renderer of well-formed JASPAR 2016 files.
  The `Reader` is `LMV.Jaspar.{new, next}` (the two mod.rs files have the same text).

  mirrors: lightmotif-io/src/jaspar16/parse.rs::{symbol, counts, matrix_column, build_matrix, matrix, header, record}
-/
import LMV.Model.Jaspar

namespace LMV
namespace Jaspar16

open Io Nom

/-- `counts`: `[` u32s separated by spaces `]`, blanks allowed around the brackets -/
def counts : Parser (List Nat) :=
  delimited (delimited space0 (tag [0x5B]) space0) (sepList0 space1 u32)
    (delimited space0 (tag [0x5D]) space0)

/-- `matrix_column`: `terminated(separated_pair(symbol, space1, counts), line_ending)` -/
def matrixColumn (A : Alphabet) : Parser (Nat × List Nat) :=
  terminated (separatedPair (symbol A) space1 counts) lineEnding

/-- `build_matrix`: `DenseMatrix::new(input[0].1.len())`, then the loop with the `done` flags -/
def buildMatrix (A : Alphabet) (input : List (Nat × List Nat)) : Built Nat A.K :=
  match input with
  | [] => .panic "parse.rs: input[0]"
  | (_, c0) :: _ => buildSymLoop ((Mat.empty : Mat Nat A.K).resize c0.length 0) [] input

/-- `matrix`: `map_res(many1(matrix_column), build_matrix)` -/
def matrix (A : Alphabet) : Parser (Except String (Mat Nat A.K)) :=
  built (many1 (matrixColumn A)) (buildMatrix A)

/-- `record`: the header of the raw flavour, then `map_res(matrix, CountMatrix::new)` -/
def record (A : Alphabet) : Parser (Except String (CRecord A.K)) :=
  pmap (pair Jaspar.header (matrix A)) fun v =>
    match v.2 with
    | .ok m => .ok { id := v.1.1, description := v.1.2, matrix := m }
    | .error site => .error site

/-! ### renderer -/

/-- a JASPAR 2016 motif as written: header fields and the symbol lines in file order, each a
    letter (as its index) with its counts -/
structure Src where
  id : Bytes
  description : Option Bytes
  cols : List (Nat × List Nat)

def renderCol (A : Alphabet) (c : Nat × List Nat) : Bytes :=
  A.letters.getD c.1 0 :: 0x20 :: 0x5B :: Jaspar.renderCounts c.2 ++ [0x5D, 0x0A]

def render1 (A : Alphabet) (r : Src) : Bytes :=
  Jaspar.renderHeader r.id r.description ++ r.cols.flatMap (renderCol A)

def render (A : Alphabet) (rs : List Src) : Bytes := rs.flatMap (render1 A)

/-- well-formed: header as for the raw flavour; at least one symbol line; symbols of the alphabet,
    pairwise distinct, in any order; one length; counts in `u32` -/
def WF (A : Alphabet) (r : Src) : Prop :=
  Jaspar.WFHeader r.id r.description ∧ r.cols ≠ [] ∧
  (∀ c ∈ r.cols, c.1 < A.K) ∧ (r.cols.map (·.1)).Nodup ∧
  (∀ c ∈ r.cols, c.2.length = (r.cols.headD (0, [])).2.length) ∧
  (∀ c ∈ r.cols, ∀ x ∈ c.2, x < 4294967296)

instance (A : Alphabet) (r : Src) : Decidable (WF A r) := by unfold WF; infer_instance

/-- every count in the row of its position and the column of its symbol, other columns zero -/
def expect (A : Alphabet) (r : Src) : CRecord A.K :=
  { id := r.id, description := r.description,
    matrix := Mat.ofFn (r.cols.headD (0, [])).2.length fun i j =>
      match r.cols.find? (·.1 == j) with
      | some c => c.2.getD i 0
      | none => 0 }

end Jaspar16
end LMV
