/-
  LMV.Model.Maximum — mirror models of maximum / arg-maximum / thresholding of score matrices (C07).

  mirrors: lightmotif/src/pli/mod.rs::Maximum::{argmax, max}, Threshold::threshold   (trait defaults)
           lightmotif/src/pli/platform/avx2.rs::{argmax_f32_avx2, max_f32_avx2, argmax_u8_avx2, max_u8_avx2}
           lightmotif/src/pli/platform/sse2.rs::argmax_sse2
           lightmotif/src/pli/dispatch.rs::Maximum for Pipeline<A, Dispatch>
           lightmotif/src/pli/mod.rs::Maximum / Threshold for Pipeline<A, {Generic, Sse2, Avx2}>
           lightmotif/src/scores.rs::StripedScores::{offset, max, argmax, threshold}, Scores::{argmax, max, threshold}

  Everything is polymorphic in the element type `α`, whose comparisons are the two Boolean functions
  of `Cmp α`: the driver instantiates them with IEEE `Float32` (from bit patterns) and with `UInt8`,
  the theorems (Props/C07) assume that they form a total preorder — which is what "no NaN" means.

  A score matrix is seen through `rows : Nat` and the cell function `f : Nat → Nat → α`
  (`f r c = data[r][c]`); the `Mat` wrappers at the end feed `Mat.rows` / `Mat.getD`.

  The vector kernels are modelled at lane level: the accumulator registers are a list of *slots*
  (register-major: slot `s` is lane `s % w` of register `s / w`), the loop over rows updates every
  slot with the lane-wise compare / blend, the registers are then stored into the scratch array `x`
  (store offsets, `permute2x128` immediates) and `x` is reduced by the scalar epilogue.  Initial
  accumulators, load offsets, compare predicates and operand order, the unpack order of the u8
  kernel and the stores come from `LMV.Gen.MaxK`, regenerated from the Rust source on every run.
-/
import LMV.Model.Mat
import LMV.Gen.MaxK

namespace LMV
namespace Maximum

open LMV.Gen.MaxK

/-- the comparisons of the element type (`PartialOrd`), and the two constants the kernels use -/
structure Cmp (α : Type) where
  /-- `a <= b` -/
  le : α → α → Bool
  /-- `a < b` -/
  lt : α → α → Bool
  /-- the all-zero bit pattern (`_mm256_setzero_ps()`, `_mm256_setzero_si256()`, `T::default()`) -/
  zero : α
  /-- `-f32::INFINITY` (SSE2 kernel only) -/
  negInf : α

/-- `MatrixCoordinates { row, col }` -/
abbrev Coord := Nat × Nat

/-- a comparison as written in the source, applied to its operands in source order -/
def _root_.LMV.Gen.MaxK.Rel.eval {α : Type} (o : Cmp α) : Rel → α → α → Bool
  | .le, a, b => o.le a b
  | .lt, a, b => o.lt a b
  | .ge, a, b => o.le b a
  | .gt, a, b => o.lt b a

def _root_.LMV.Gen.MaxK.Rel.evalInt : Rel → Int → Int → Bool
  | .le, a, b => decide (a ≤ b)
  | .lt, a, b => decide (a < b)
  | .ge, a, b => decide (b ≤ a)
  | .gt, a, b => decide (b < a)

/-- running best of the scalar scans: `best_row`, `best_col`, `best_score` -/
structure Best (α : Type) where
  row : Nat
  col : Nat
  score : α

section Generic
variable {α : Type}

/-- `if row[j] >= best_score { best_row = i; best_col = j; best_score = row[j]; }` -/
def genericStep (o : Cmp α) (f : Nat → Nat → α) (i : Nat) (b : Best α) (j : Nat) : Best α :=
  if genericArgmaxRel.eval o (f i j) b.score then ⟨i, j, f i j⟩ else b

/-- trait default `Maximum::argmax`: `None` on an empty matrix; otherwise the row-major scan
    seeded with `scores[0]` (`Index<usize>`: `col = 0 / rows`, `row = 0 % rows`). -/
def argmaxGeneric (o : Cmp α) (C rows : Nat) (f : Nat → Nat → α) : Option Coord :=
  if rows = 0 then none
  else
    let b := (List.range rows).foldl
      (fun b i => (List.range C).foldl (genericStep o f i) b) ⟨0, 0, f (0 % rows) (0 / rows)⟩
    some (b.row, b.col)

/-- trait default `Maximum::max`: `self.argmax(scores).map(|c| scores.matrix()[c])`, over whatever
    `argmax` the pipeline has -/
def maxOfArgmax (f : Nat → Nat → α) (a : Option Coord) : Option α :=
  a.map fun c => f c.1 c.2

def maxGeneric (o : Cmp α) (C rows : Nat) (f : Nat → Nat → α) : Option α :=
  maxOfArgmax f (argmaxGeneric o C rows f)

/-- trait default `Threshold::threshold`: row-major, `if row[col] >= threshold { push (i, col) }` -/
def thresholdGeneric (o : Cmp α) (C rows : Nat) (f : Nat → Nat → α) (t : α) : List Coord :=
  (List.range rows).flatMap fun i =>
    ((List.range C).filter fun j => genericThresholdRel.eval o (f i j) t).map fun j => (i, j)

end Generic

/-! ### Lane-level machinery shared by the vector kernels -/

section Lanes
variable {α σ ρ : Type}

/-- one lane of the loop body of the arg-max kernels: `c = cmp(..)`, `p = blend(p, index, c)`,
    `s = blend(s, upd r, c)`.  `idx i` is the row index as the lane stores it (`i as i32`,
    `i as i16` read back as unsigned). -/
def laneStep (take : σ → ρ → Bool) (upd : ρ → σ) (idx : Nat → Nat) (i : Nat) (acc : Nat × σ) (r : ρ) :
    Nat × σ :=
  if take acc.2 r then (idx i, upd r) else acc

/-- one iteration of the row loop on all slots; `rd i s` is what lane `s` sees of row `i` -/
def rowStep (step : Nat → σ → ρ → σ) (rd : Nat → Nat → ρ) (st : List σ) (i : Nat) : List σ :=
  st.mapIdx fun s acc => step i acc (rd i s)

/-- `for i in 0..data.rows() { … }` -/
def rowsRun (step : Nat → σ → ρ → σ) (rd : Nat → Nat → ρ) (rows : Nat) (init : List σ) : List σ :=
  (List.range rows).foldl (rowStep step rd) init

/-- the `w` lanes of register `k` of a register file stored slot by slot -/
def regLanes {β : Type} (w : Nat) (p : List β) (k : Nat) : List β := (p.drop (k * w)).take w

/-- one 128-bit half of `_mm256_permute2x128_si256(a, b, imm)`, `ctl` = the half's 4 control bits:
    bit 3 zeroes, bit 1 selects `b` over `a`, bit 0 selects the high half of the source -/
def half128 {β : Type} (z : β) (w : Nat) (p : List β) (a b ctl : Nat) : List β :=
  if ctl / 8 % 2 = 1 then List.replicate (w / 2) z
  else
    let r := regLanes w p (if ctl / 2 % 2 = 0 then a else b)
    if ctl % 2 = 0 then r.take (w / 2) else r.drop (w / 2)

/-- the lanes a vector store writes -/
def _root_.LMV.Gen.MaxK.Src.lanes {β : Type} (z : β) (w : Nat) (p : List β) : Src → List β
  | .reg k => regLanes w p k
  | .perm a b imm => half128 z w p a b (imm % 16) ++ half128 z w p a b (imm / 16 % 16)

/-- `storeu(x[off..], v)` -/
def writeAt {β : Type} (x : List β) (off : Nat) (v : List β) : List β :=
  x.take off ++ v ++ x.drop (off + v.length)

/-- `let mut x = [0; n];` followed by the stores in source order -/
def storeAll {β : Type} (z : β) (n w : Nat) (stores : List (Nat × Src)) (p : List β) : List β :=
  stores.foldl (fun x st => writeAt x st.1 (Src.lanes z w p st.2)) (List.replicate n z)

/-- scalar epilogue of the arg-max kernels: `for (col, row) in x.enumerate() { score = data[row][col];
    if take score best_score { best = (row, col, score) } }` -/
def reduceCols (take : α → α → Bool) (f : Nat → Nat → α) (x : List Nat) (init : Best α) : Best α :=
  x.zipIdx.foldl
    (fun b rc => if take (f rc.1 rc.2) b.score then ⟨rc.1, rc.2, f rc.1 rc.2⟩ else b) init

/-- the value an accumulator lane of element type starts from -/
def initLane (o : Cmp α) (f : Nat → Nat → α) : Init → Nat → α
  | .zero, _ => o.zero
  | .const _, _ => o.zero          -- not produced for element-typed registers
  | .best, _ => o.negInf
  | .row0 off, l => f 0 (off + l)

/-- the value an index lane starts from -/
def initIdx : Init → Nat
  | .const v => v.toNat
  | _ => 0

end Lanes

/-! ### AVX2, f32 -/

section Avx2F32
variable {α : Type}

/-- `_mm256_cmp_ps(sK, rK, PRED)` on one lane -/
def af32Take (o : Cmp α) (s r : α) : Bool :=
  if af32AccFirst then af32Rel.eval o s r else af32Rel.eval o r s

/-- lane `s` of `rK = _mm256_load_ps(dataptr.add(off_K))` in row `i` -/
def af32Read (f : Nat → Nat → α) (i s : Nat) : α := f i (af32LoadOffs.getD (s / 8) 0 + s % 8)

def af32Init (o : Cmp α) (f : Nat → Nat → α) : List (Nat × α) :=
  (List.range (8 * af32LoadOffs.length)).map fun s =>
    (initIdx (af32PInit.getD (s / 8) .zero), initLane o f (af32SInit.getD (s / 8) .zero) (s % 8))

/-- `argmax_f32_avx2`.  `.error` = the explicit `panic!` on `max_index > u32::MAX`. -/
def argmaxF32Avx2 (o : Cmp α) (maxIndex rows : Nat) (f : Nat → Nat → α) :
    Except String (Option Coord) :=
  if maxIndex > 4294967295 then .error "panic"
  else if rows = 0 then .ok none
  else
    let st := rowsRun (laneStep (af32Take o) id (· % 4294967296)) (af32Read f) rows (af32Init o f)
    let x := storeAll 0 32 8 af32Stores (st.map (·.1))
    let b := reduceCols (af32FinalRel.eval o) f x ⟨0, 0, f 0 0⟩
    .ok (some (b.row, b.col))

/-- `_mm256_max_ps(a, b)`: `a > b ? a : b` -/
def maxps (o : Cmp α) (a b : α) : α := if o.lt b a then a else b

/-- `f32::max` on two non-NaN values -/
def fmax (o : Cmp α) (a b : α) : α := if o.lt a b then b else a

def mf32Step (o : Cmp α) (_i : Nat) (m r : α) : α :=
  if mf32AccFirst then maxps o m r else maxps o r m

def mf32Read (f : Nat → Nat → α) (i s : Nat) : α := f i (mf32LoadOffs.getD (s / 8) 0 + s % 8)

def mf32InitLanes (o : Cmp α) (f : Nat → Nat → α) : List α :=
  (List.range (8 * mf32LoadOffs.length)).map fun s => initLane o f (mf32Init.getD (s / 8) .zero) (s % 8)

/-- `Iterator::reduce(g)` -/
def reduce1 (g : α → α → α) : List α → Option α
  | [] => none
  | h :: t => some (t.foldl g h)

/-- `max_f32_avx2` -/
def maxF32Avx2 (o : Cmp α) (rows : Nat) (f : Nat → Nat → α) : Option α :=
  if rows = 0 then none
  else
    let st := rowsRun (mf32Step o) (mf32Read f) rows (mf32InitLanes o f)
    let lane := fun (k l : Nat) => st.getD (8 * k + l) o.zero
    let m := (List.range 8).map fun l =>
      maxps o (maxps o (lane mf32Tree.1.1 l) (lane mf32Tree.1.2 l))
              (maxps o (lane mf32Tree.2.1 l) (lane mf32Tree.2.2 l))
    reduce1 (fmax o) m

end Avx2F32

/-! ### AVX2, u8 -/

section Avx2U8

/-- `_mm256_unpack{lo,hi}_epi8(a, b)`: where byte `d` of the result comes from —
    (from the second operand?, byte index in that operand) -/
def unpackEpi8Src (hi : Bool) (d : Nat) : Bool × Nat :=
  (d % 2 == 1, 16 * (d / 16) + (if hi then 8 else 0) + d % 16 / 2)

/-- 16-bit lane `j` of `_mm256_unpack{lo,hi}_epi8(a, b)` (little endian), bytes given as `Nat`s -/
def lane16 (hi : Bool) (a b : Nat → Nat) (j : Nat) : Nat :=
  let byte := fun d => let s := unpackEpi8Src hi d; if s.1 then b s.2 else a s.2
  byte (2 * j) + 256 * byte (2 * j + 1)

/-- lane `s` of `rK = _mm256_unpack??_epi8(r, _mm256_setzero_si256())` in row `i`, as a signed
    16-bit value (always in `0..=255`) -/
def au8Read (f : Nat → Nat → UInt8) (i s : Nat) : Int :=
  Int.ofNat (lane16 (au8UnpackHi.getD (s / 16) false) (fun c => (f i c).toNat) (fun _ => 0) (s % 16))

/-- `_mm256_cmpgt_epi16(rK, sK)` on one lane -/
def au8Take (s r : Int) : Bool :=
  if au8AccFirst then au8Rel.evalInt s r else au8Rel.evalInt r s

def au8Init : List (Nat × Int) :=
  (List.range (16 * au8UnpackHi.length)).map fun s =>
    (initIdx (au8PInit.getD (s / 16) .zero),
     match au8SInit.getD (s / 16) .zero with | .const v => v | _ => 0)

/-- `Iterator::max_by_key(key)`: the last of the maximal elements -/
def maxByKeyLast {β κ : Type} (le : κ → κ → Bool) (key : β → κ) : List β → Option β
  | [] => none
  | h :: t => some (t.foldl (fun b x => if le (key b) (key x) then x else b) h)

/-- `argmax_u8_avx2`.  `.error` = the explicit `panic!` on more than 65 536 rows.  16-bit lanes:
    `sub_epi16(r, ones)` never wraps (`r ∈ 0..=255`), `i as i16` read back as `u16` is `i % 65536`. -/
def argmaxU8Avx2 (o : Cmp UInt8) (rows : Nat) (f : Nat → Nat → UInt8) :
    Except String (Option Coord) :=
  if rows > 65535 + 1 then .error "panic"
  else if rows = 0 then .ok none
  else
    let st := rowsRun (laneStep au8Take (· - au8Ones) (· % 65536)) (au8Read f) rows au8Init
    let x := storeAll 0 32 16 au8Stores (st.map (·.1))
    .ok (maxByKeyLast o.le (fun (pos : Coord) => f pos.1 pos.2) (x.zipIdx))

variable {α : Type}

/-- `_mm256_max_epu8(a, b)` on one lane -/
def maxepu8 (o : Cmp α) (a b : α) : α := if o.lt a b then b else a

def mu8Step (o : Cmp α) (_i : Nat) (m r : α) : α :=
  if mu8AccFirst then maxepu8 o m r else maxepu8 o r m

/-- `Iterator::max()` : `reduce(|x, y| if x > y { x } else { y })` -/
def iterMax (o : Cmp α) (x : List α) : Option α := reduce1 (fun a b => if o.lt b a then a else b) x

/-- `max_u8_avx2` -/
def maxU8Avx2 (o : Cmp α) (rows : Nat) (f : Nat → Nat → α) : Option α :=
  if rows = 0 then none
  else
    let st := rowsRun (mu8Step o) (fun i s => f i s) rows
      ((List.range 32).map fun s => initLane o f mu8Init s)
    iterMax o st

end Avx2U8

/-! ### SSE2, f32, `C` a multiple of 16 -/

section Sse2
variable {α : Type}

def sse2Take (o : Cmp α) (s r : α) : Bool :=
  if sse2AccFirst then sse2Rel.eval o s r else sse2Rel.eval o r s

/-- lane `s` of the block at column `offset`, row `i` -/
def sse2Read (f : Nat → Nat → α) (offset i s : Nat) : α :=
  f i (offset + sse2LoadOffs.getD (s / 4) 0 + s % 4)

def sse2Init (o : Cmp α) (f : Nat → Nat → α) : List (Nat × α) :=
  (List.range (4 * sse2LoadOffs.length)).map fun s =>
    (initIdx (sse2PInit.getD (s / 4) .zero), initLane o f (sse2SInit.getD (s / 4) .zero) (s % 4))

/-- the 16 row indices one pass of the block loop stores at `outptr` -/
def sse2Block (o : Cmp α) (rows : Nat) (f : Nat → Nat → α) (offset : Nat) : List Nat :=
  let st := rowsRun (laneStep (sse2Take o) id (· % 4294967296)) (sse2Read f offset) rows (sse2Init o f)
  storeAll 0 sse2Lanes 4 sse2Stores (st.map (·.1))

/-- `argmax_sse2::<C>` -/
def argmaxSse2 (o : Cmp α) (C maxIndex rows : Nat) (f : Nat → Nat → α) :
    Except String (Option Coord) :=
  if maxIndex > 4294967295 then .error "panic"
  else if rows = 0 then .ok none
  else
    let output := (List.range (C / sse2Lanes)).foldl
      (fun out blk => writeAt out (blk * sse2Lanes) (sse2Block o rows f (blk * sse2Lanes)))
      (List.replicate C 0)
    -- `for col in 0..C::USIZE { let row = output[col]; … }`
    let b := reduceCols (sse2FinalRel.eval o) f output ⟨0, 0, o.negInf⟩
    .ok (some (b.row, b.col))

end Sse2

/-! ### Pipelines and the dispatcher -/

inductive Backend | generic | sse2 | avx2
deriving DecidableEq, Repr

def Backend.idx : Backend → Nat
  | .generic => 0 | .sse2 => 1 | .avx2 => 2

section Pipelines
variable {α : Type}

/-- `impl Maximum<f32, C> for Pipeline<A, B>`, `B` = Generic (any `C`), Sse2 (`16 ∣ C`), Avx2 (`C = 32`) -/
def pipeArgmaxF32 (o : Cmp α) (b : Backend) (C maxIndex rows : Nat) (f : Nat → Nat → α) :
    Except String (Option Coord) :=
  match b with
  | .generic => .ok (argmaxGeneric o C rows f)
  | .sse2 => argmaxSse2 o C maxIndex rows f
  | .avx2 => argmaxF32Avx2 o maxIndex rows f

def pipeMaxF32 (o : Cmp α) (b : Backend) (C maxIndex rows : Nat) (f : Nat → Nat → α) :
    Except String (Option α) :=
  match b with
  | .generic => .ok (maxGeneric o C rows f)
  | .sse2 =>          -- trait default `max` over the overridden `argmax`
    match argmaxSse2 o C maxIndex rows f with
    | .error e => .error e
    | .ok a => .ok (maxOfArgmax f a)
  | .avx2 => .ok (maxF32Avx2 o rows f)

/-- `impl Maximum<u8, C> for Pipeline<A, B>`: only Avx2 overrides -/
def pipeArgmaxU8 (o : Cmp UInt8) (b : Backend) (C rows : Nat) (f : Nat → Nat → UInt8) :
    Except String (Option Coord) :=
  match b with
  | .avx2 => argmaxU8Avx2 o rows f
  | _ => .ok (argmaxGeneric o C rows f)

def pipeMaxU8 (o : Cmp α) (b : Backend) (C rows : Nat) (f : Nat → Nat → α) : Option α :=
  match b with
  | .avx2 => maxU8Avx2 o rows f
  | _ => maxGeneric o C rows f

def kernelOf (tbl : List Kernel) (arm : Backend) : Kernel := tbl.getD arm.idx .generic

/-- `impl Maximum<f32, U32> for Pipeline<A, Dispatch>` -/
def dispArgmaxF32 (o : Cmp α) (arm : Backend) (maxIndex rows : Nat) (f : Nat → Nat → α) :
    Except String (Option Coord) :=
  match kernelOf dispF32Argmax arm with
  | .avx2 => argmaxF32Avx2 o maxIndex rows f
  | .sse2 => argmaxSse2 o 32 maxIndex rows f
  | .generic => .ok (argmaxGeneric o 32 rows f)

def dispMaxF32 (o : Cmp α) (arm : Backend) (rows : Nat) (f : Nat → Nat → α) : Option α :=
  match kernelOf dispF32Max arm with
  | .avx2 => maxF32Avx2 o rows f
  | _ => maxGeneric o 32 rows f

def dispArgmaxU8 (o : Cmp UInt8) (arm : Backend) (rows : Nat) (f : Nat → Nat → UInt8) :
    Except String (Option Coord) :=
  match kernelOf dispU8Argmax arm with
  | .avx2 => argmaxU8Avx2 o rows f
  | _ => .ok (argmaxGeneric o 32 rows f)

def dispMaxU8 (o : Cmp α) (arm : Backend) (rows : Nat) (f : Nat → Nat → α) : Option α :=
  match kernelOf dispU8Max arm with
  | .avx2 => maxU8Avx2 o rows f
  | _ => maxGeneric o 32 rows f

end Pipelines

/-! ### `StripedScores` and `Scores` -/

/-- `StripedScores<T, C>` -/
structure Striped (α : Type) (C : Nat) where
  data : Mat α C
  maxIndex : Nat

namespace Striped
variable {α : Type} {C : Nat}

def cell (o : Cmp α) (s : Striped α C) (r c : Nat) : α := s.data.getD r c o.zero

/-- `StripedScores::offset`: `mc.col * rows + mc.row` -/
def offset (s : Striped α C) (mc : Coord) : Nat := mc.2 * s.data.rows + mc.1

end Striped

/-- `StripedScores::<f32, U32>::argmax`: `Pipeline::dispatch().argmax(self).map(|mc| self.offset(mc))` -/
def Striped.argmaxF32 {α : Type} (o : Cmp α) (arm : Backend) (s : Striped α 32) : Except String (Option Nat) :=
  match dispArgmaxF32 o arm s.maxIndex s.data.rows (s.cell o) with
  | .error e => .error e
  | .ok a => .ok (a.map s.offset)

def Striped.maxF32 {α : Type} (o : Cmp α) (arm : Backend) (s : Striped α 32) : Option α :=
  dispMaxF32 o arm s.data.rows (s.cell o)

def Striped.argmaxU8 (o : Cmp UInt8) (arm : Backend) (s : Striped UInt8 32) : Except String (Option Nat) :=
  match dispArgmaxU8 o arm s.data.rows (s.cell o) with
  | .error e => .error e
  | .ok a => .ok (a.map s.offset)

def Striped.maxU8 {α : Type} (o : Cmp α) (arm : Backend) (s : Striped α 32) : Option α :=
  dispMaxU8 o arm s.data.rows (s.cell o)

/-- `StripedScores::threshold` (every arm of the dispatcher uses the trait default) -/
def Striped.threshold {α : Type} (o : Cmp α) (_arm : Backend) (s : Striped α 32) (t : α) : List Nat :=
  (thresholdGeneric o 32 s.data.rows (s.cell o) t).map s.offset

section Scores
variable {α : Type}

/-- `Scores::argmax`: `iter().enumerate().max_by(|x, y| x.1.partial_cmp(y.1).unwrap())` — the last
    of the maximal elements (`max_by` keeps `y` unless `x > y`) -/
def scoresArgmax (o : Cmp α) (l : List α) : Option Nat :=
  (reduce1 (fun (x y : α × Nat) => if o.lt y.1 x.1 then x else y) l.zipIdx).map (·.2)

/-- `Scores::max` -/
def scoresMax (o : Cmp α) (l : List α) : Option α :=
  reduce1 (fun x y => if o.lt y x then x else y) l

/-- `Scores::threshold`: `filter(|(_, x)| x >= &threshold)` -/
def scoresThreshold (o : Cmp α) (l : List α) (t : α) : List Nat :=
  (l.zipIdx.filter fun x => o.le t x.1).map (·.2)

end Scores

end Maximum
end LMV
