/-
  LMV.Model.PyView — the indexing and buffer-protocol glue of the Python module (C18).

  mirrors: lightmotif-py/lightmotif/lib.rs::EncodedSequence::{__len__, __getitem__, __getbuffer__},
           StripedSequence::{From<StripedSequenceData>, __getbuffer__},
           {CountMatrix, WeightMatrix, ScoringMatrix}::{__len__, __getitem__},
           ScoringMatrix::{new, __getbuffer__}, ScoreDistribution::__getbuffer__,
           StripedScores::{__len__, __getitem__, __getbuffer__, From<scores::StripedScores<f32>>},
           lightmotif/src/scores.rs::Index<usize> for StripedScores,
           lightmotif/src/seq.rs::StripedSequence::{configure, configure_wrap} (row count only)

  Only the glue: which element an index designates, what `len()` is, and the `Py_buffer` fields
  (`ndim/shape/strides/itemsize/format/len`) as arithmetic over (rows, columns, element size, row
  pitch of the C19 layout).  The contents of the matrices belong to C01/C04/C09; here a matrix is an
  abstract cell function and a view element is identified with the *cell* whose bytes it reads.
  Exceptions and panics are outcomes.
-/
import LMV.Model.Dense

namespace LMV
namespace PyView

/-! ### `__getitem__` -/

/-- outcome of a Python-level call -/
inductive Outcome (α : Type) where
  | ok (a : α)
  | indexError
  | overflowError          -- pyo3 could not convert the Python int to `Py_ssize_t`
  | panic (site : String)  -- a Rust panic (surfaces as `pyo3_runtime.PanicException`)
deriving Repr, DecidableEq

/-- the index normalisation every `__getitem__` performs on its `Py_ssize_t` argument:
    `if index < 0 { index += len }; if index < 0 || index >= len { IndexError }`.
    (`index + len` cannot overflow: it is only formed for `index < 0`, and `len ≤ isize::MAX`.) -/
def normIndex (len : Nat) (index : Int) : Option Nat :=
  let i := if index < 0 then index + (len : Int) else index
  if i < 0 ∨ i ≥ (len : Int) then none else some i.toNat

/-- `Py_ssize_t` range: pyo3 raises `OverflowError` before the method body runs otherwise -/
def fitsSsize (index : Int) : Bool := decide (-(2:Int)^63 ≤ index) && decide (index < (2:Int)^63)

/-- `__getitem__` of the list-like classes (`EncodedSequence`: symbols; `CountMatrix`, `WeightMatrix`,
    `ScoringMatrix`: rows), repaired code: the data is indexed with the normalised index.
    `xs[i]` is the Rust slice / `DenseMatrix` indexing, which panics out of bounds. -/
def getitem {α : Type} (xs : List α) (index : Int) : Outcome α :=
  if fitsSsize index then
    match normIndex xs.length index with
    | none => .indexError
    | some i =>
      match xs[i]? with
      | some x => .ok x
      | none => .panic "index out of bounds"
  else .overflowError

/-- the code as it was at the pinned commit for the three matrix classes: bounds test on the
    normalised index, then `self.data.get(index as usize)` with the ORIGINAL index -/
def getitemUnnormalised {α : Type} (xs : List α) (index : Int) : Outcome α :=
  if fitsSsize index then
    match normIndex xs.length index with
    | none => .indexError
    | some _ =>
      -- `index as usize` of a negative `isize` is ≥ 2^63 > len
      let raw : Nat := if index < 0 then (index + (2:Int)^64).toNat else index.toNat
      match xs[raw]? with
      | some x => .ok x
      | none => .panic "index out of bounds"
  else .overflowError

/-- `StripedScores.__getitem__` (repaired: negative indices are normalised against `max_index`), then
    `scores::StripedScores::index`: `col = i / rows; row = i % rows; &data[row][col]`.
    `cell r c` is the score matrix (`rows × cols`).  `i % 0` panics in Rust (division by zero), a column
    `≥ cols` is an out-of-bounds panic. -/
def scoresGetitem {α : Type} (rows cols maxIndex : Nat) (cell : Nat → Nat → α) (index : Int) : Outcome α :=
  if fitsSsize index then
    match normIndex maxIndex index with
    | none => .indexError
    | some i =>
      if rows = 0 then .panic "attempt to calculate the remainder with a divisor of zero"
      else if i / rows < cols then .ok (cell (i % rows) (i / rows))
      else .panic "index out of bounds"
  else .overflowError

/-! ### the memory behind a `DenseMatrix` (C19 layout) and what a byte offset designates -/

/-- what the byte at offset `off` from the start of the row buffer is -/
inductive Cell where
  | elem (row col byte : Nat)   -- byte `byte` of element (row, col)
  | pad                          -- alignment padding at the end of a row
  | outside                      -- not part of the matrix (foreign memory)
deriving Repr, DecidableEq

/-- `rows` rows of `cols` elements of `size` bytes; consecutive rows are `pitch` bytes apart
    (`pitch = Dense.rowBytes cols size align`) -/
def cellAt (rows cols size pitch off : Nat) : Cell :=
  if off < rows * pitch then
    if off % pitch < cols * size then .elem (off / pitch) (off % pitch / size) (off % pitch % size)
    else .pad
  else .outside

/-- the element a `size`-byte item starting at byte offset `off` is, if its first and last byte are
    the first and last byte of one matrix element -/
def elemAt (rows cols size pitch off : Nat) : Option (Nat × Nat) :=
  match cellAt rows cols size pitch off with
  | .elem r c 0 =>
    if cellAt rows cols size pitch (off + size - 1) = .elem r c (size - 1) then some (r, c) else none
  | _ => none

/-! ### the exported `Py_buffer`s -/

/-- a one-dimensional export (`shape = strides = NULL`: CPython takes `len / itemsize` items, contiguous) -/
structure View1 where
  itemsize : Nat
  format : String
  len : Nat            -- bytes
deriving Repr, DecidableEq

/-- a two-dimensional export -/
structure View2 where
  shape0 : Nat
  shape1 : Nat
  stride0 : Nat        -- bytes
  stride1 : Nat
  itemsize : Nat
  format : String
  len : Nat            -- bytes
deriving Repr, DecidableEq

def View1.items (v : View1) : Nat := v.len / v.itemsize
def View1.offset (v : View1) (i : Nat) : Nat := i * v.itemsize
def View2.offset (v : View2) (i j : Nat) : Nat := i * v.stride0 + j * v.stride1

/-- `EncodedSequence::__getbuffer__`: the symbol bytes -/
def encView (n : Nat) : View1 := { itemsize := 1, format := "B", len := n }

/-- `ScoreDistribution::__getbuffer__`: the survival function, `f64` -/
def distView (n : Nat) : View1 := { itemsize := 8, format := "d", len := n * 8 }

/-- `StripedSequence`: `shape = [cols, rows]`, `strides = [1, stride]` cached by `From<StripedSequenceData>`
    when the object is created (`rows` = sequence rows, no look-ahead rows yet);
    `len = shape[0] * shape[1]` (repaired; was `data.rows() * cols` with the look-ahead rows) -/
def stripedView (cols rows align : Nat) : View2 :=
  { shape0 := cols, shape1 := rows, stride0 := 1, stride1 := 1 * Dense.stride cols 1 align,
    itemsize := 1, format := "B", len := cols * rows }

/-- `ScoringMatrix::new`: `shape = [rows, cols]` (repaired; was `[cols, rows]`),
    `strides = [stride * 4, 4]`; `len = rows * cols * 4` (repaired; was `-1`) -/
def scoringView (rows cols align : Nat) : View2 :=
  { shape0 := rows, shape1 := cols, stride0 := Dense.stride cols 4 align * 4, stride1 := 4,
    itemsize := 4, format := "f", len := rows * cols * 4 }

/-- `From<StripedScores<f32>>`: `shape = [cols, rows]`, `strides = [4, stride * 4]` ("Fortran buffer");
    `len = cols * rows * 4` (repaired; was `-1`) -/
def scoresView (cols rows align : Nat) : View2 :=
  { shape0 := cols, shape1 := rows, stride0 := 4, stride1 := Dense.stride cols 4 align * 4,
    itemsize := 4, format := "f", len := cols * rows * 4 }

/-- shape and strides of the `ScoringMatrix` export at the pinned commit (its `len` was `-1`; the
    field is not used by the statement about this variant) -/
def scoringViewAsIs (rows cols align : Nat) : View2 :=
  { shape0 := cols, shape1 := rows, stride0 := Dense.stride cols 4 align * 4, stride1 := 4,
    itemsize := 4, format := "f", len := 0 }

/-! ### one `StripedSequence` object reused for scoring -/

/-- the part of the Python `StripedSequence` the view depends on -/
structure PySeq where
  cols : Nat
  dataRows : Nat      -- rows of the `DenseMatrix` now (sequence rows + look-ahead rows)
  wrap : Nat          -- look-ahead rows now
  shapeRows : Nat     -- the row count cached in `shape` at construction
deriving Repr, DecidableEq

/-- `stripe(...)` / `EncodedSequence.stripe()`: `R` sequence rows, no look-ahead rows -/
def PySeq.fresh (cols R : Nat) : PySeq := { cols := cols, dataRows := R, wrap := 0, shapeRows := R }

/-- `ScoringMatrix.calculate(seq)` / `Scanner(pssm, seq)` with a motif of `M` rows:
    `seq.configure(pssm)` = `if M > 0 { configure_wrap(M - 1) }`; `configure_wrap m` grows the matrix
    by `m - wrap` rows when `m > wrap`.  The cached shape is not touched. -/
def PySeq.configure (s : PySeq) (M : Nat) : PySeq :=
  if M = 0 then s
  else if M - 1 > s.wrap then { s with dataRows := s.dataRows + (M - 1) - s.wrap, wrap := M - 1 }
  else s

def PySeq.run (s : PySeq) : List Nat → PySeq
  | [] => s
  | M :: Ms => (s.configure M).run Ms

/-- `StripedSequence.copy()` / `__copy__` (`copy.copy`): the derived `Clone` of the Python object — the
    matrix WITH its look-ahead rows and the shape cached at construction are both copied, so the copy
    of a sequence that was already configured still shows the sequence rows only. -/
def PySeq.copy (s : PySeq) : PySeq :=
  { cols := s.cols, dataRows := s.dataRows, wrap := s.wrap, shapeRows := s.shapeRows }

/-- the view a `memoryview(seq)` gets now -/
def PySeq.view (s : PySeq) (align : Nat) : View2 := stripedView s.cols s.shapeRows align

/-- the matrix cell behind element `[i][j]` of a view of this object -/
def PySeq.viewCell (s : PySeq) (align i j : Nat) : Cell :=
  cellAt s.dataRows s.cols 1 (Dense.rowBytes s.cols 1 align) ((s.view align).offset i j)

/-! ### views exported BEFORE the object is reused (the dangling-view finding)

  `__getbuffer__` hands out the address of the row storage at the time of the call; the cached
  `shape/strides` live in the Python object, the bytes in the `Vec<Row>` of the `DenseMatrix`.
  `configure_wrap` resizes that `Vec`; when it grows beyond its capacity the allocator may return a
  different block and free the old one.  Nothing ties the lifetime of the block to the exported view. -/

/-- `asIs`: `calculate` / `Scanner` reconfigure the sequence regardless of exported views (pinned
    commit).  `repaired`: a reconfiguration that has to grow the storage is refused with `BufferError`
    while a view is exported (what `bytearray` does). -/
inductive Variant where
  | asIs
  | repaired
deriving Repr, DecidableEq

/-- the Python object together with the identity of its storage block -/
structure PyObj where
  seq : PySeq
  block : Nat        -- identity of the allocation holding the rows
  exports : Nat      -- live exported views
deriving Repr, DecidableEq

/-- an exported view remembers the block it points into -/
structure Exported where
  view : View2
  block : Nat
deriving Repr, DecidableEq

def PyObj.fresh (cols R : Nat) : PyObj := { seq := PySeq.fresh cols R, block := 0, exports := 0 }

def PyObj.export (o : PyObj) (align : Nat) : PyObj × Exported :=
  ({ o with exports := o.exports + 1 }, { view := o.seq.view align, block := o.block })

/-- does `configure` for a motif of `M` rows grow the row storage? -/
def PySeq.grows (s : PySeq) (M : Nat) : Bool := decide ((s.configure M).dataRows > s.dataRows)

/-- `calculate` with a motif of `M` rows; `moves` = the allocator's choice when the storage grows -/
def PyObj.calculate (v : Variant) (moves : Bool) (o : PyObj) (M : Nat) : Except String PyObj :=
  if o.seq.grows M then
    match v with
    | .repaired =>
      if o.exports > 0 then .error "BufferError"
      else .ok { o with seq := o.seq.configure M, block := if moves then o.block + 1 else o.block }
    | .asIs => .ok { o with seq := o.seq.configure M, block := if moves then o.block + 1 else o.block }
  else .ok { o with seq := o.seq.configure M }

/-- the exported view still points into the storage of the object -/
def Exported.valid (e : Exported) (o : PyObj) : Prop := e.block = o.block

instance (e : Exported) (o : PyObj) : Decidable (e.valid o) := by unfold Exported.valid; infer_instance

/-- observations of "export a view, calculate with `M` rows, read the old view" that a variant admits:
    `same` (the view still shows the sequence), `differs` (it shows other memory), `BufferError` -/
def staleAdmissible (v : Variant) (s : PySeq) (M : Nat) : List String :=
  if s.grows M then
    match v with
    | .asIs => ["same", "differs"]
    | .repaired => ["BufferError"]
  else ["same"]

end PyView
end LMV
