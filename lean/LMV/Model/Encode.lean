/-
  LMV.Model.Encode — mirror models of the four encoders.

  mirrors: lightmotif/src/pli/mod.rs::Encode::{encode_into, encode_raw}   (generic loop)
           lightmotif/src/pli/platform/avx2.rs::encode_into_avx2
           lightmotif/src/pli/platform/sse2.rs::encode_into_sse2
           lightmotif/src/pli/dispatch.rs::Encode for Pipeline<A, Dispatch>
           lightmotif/src/seq.rs::Display for EncodedSequence

  Outcome type: `Except UInt8 (List Nat)` — `Ok(symbols as indices)` or `Err(InvalidSymbol(byte))`.
  The vector kernels only use lane-wise byte operations (cmpeq / blendv / and / andnot / or), so a
  32-byte (16-byte) block is modelled as a `map` of the per-lane function over the block.
-/
import LMV.Model.Abc

namespace LMV
namespace Encode

/-- trait default `encode_into`: left to right, `?` on the first failing byte -/
def generic (A : Alphabet) : List UInt8 → Except UInt8 (List Nat)
  | [] => .ok []
  | c :: cs =>
    match A.fromAscii c with
    | none => .error c
    | some a =>
      match generic A cs with
      | .ok v => .ok (a :: v)
      | .error e => .error e

/-- one byte lane of the AVX2 block body: `encoded` starts at `K`, `unknown` at `0xFF`;
    for `a in 0..K`: `m = (letter == alphabet[a])`, `encoded = blendv(encoded, a, m)`,
    `unknown = andnot(m, unknown)`.  Returns `(encoded, unknown)`. -/
def laneAvx2 (A : Alphabet) (b : UInt8) : UInt8 × UInt8 :=
  (List.range A.K).foldl
    (fun (st : UInt8 × UInt8) a =>
      let m := b == A.letters.getD a 0
      (if m then a.toUInt8 else st.1, if m then 0 else st.2))
    (A.K.toUInt8, 0xFF)

/-- one byte lane of the SSE2 block body: `encoded` starts at `K-1`,
    `encoded = or(andnot(m, encoded), and(m, a))`. -/
def laneSse2 (A : Alphabet) (b : UInt8) : UInt8 × UInt8 :=
  (List.range A.K).foldl
    (fun (st : UInt8 × UInt8) a =>
      let m : UInt8 := if b == A.letters.getD a 0 then 0xFF else 0
      ((~~~m &&& st.1) ||| (m &&& a.toUInt8), ~~~m &&& st.2))
    ((A.K - 1).toUInt8, 0xFF)

/-- the SIMD block loop, parameterised by the stride, the loop test and the lane function.
    `strict = false` is AVX2's `while i + STRIDE <= l`, `strict = true` SSE2's `while i + STRIDE < l`.
    Returns (bytes stored to `dst` so far, "some lane of `error` is non-zero", unprocessed rest). -/
def blocks (stride : Nat) (strict : Bool) (lane : UInt8 → UInt8 × UInt8) :
    (fuel : Nat) → List UInt8 → List UInt8 → Bool → List UInt8 × Bool × List UInt8
  | 0, s, acc, err => (acc, err, s)
  | fuel + 1, s, acc, err =>
    if stride = 0 then (acc, err, s) else
    if (if strict then stride < s.length else stride ≤ s.length) then
      let blk := (s.take stride).map lane
      blocks stride strict lane fuel (s.drop stride) (acc ++ blk.map (·.1))
        (err || blk.any (·.2 != 0))
    else (acc, err, s)

/-- the error-recovery rescan `for s in seq { from_ascii(*s)?; }` -/
def rescan (A : Alphabet) : List UInt8 → Except UInt8 Unit
  | [] => .ok ()
  | c :: cs => match A.fromAscii c with
    | none => .error c
    | some _ => rescan A cs

def simd (A : Alphabet) (stride : Nat) (strict : Bool) (lane : UInt8 → UInt8 × UInt8)
    (s : List UInt8) : Except UInt8 (List Nat) :=
  let (enc, err, rest) := blocks stride strict lane s.length s [] false
  match (if err then rescan A s else .ok ()) with
  | .error e => .error e
  | .ok _ =>
    -- `if i < l { g.encode_into(&seq[i..], &mut dst[i..])?; }`
    match generic A rest with
    | .error e => .error e
    | .ok v => .ok (enc.map (·.toNat) ++ v)

def avx2 (A : Alphabet) (s : List UInt8) : Except UInt8 (List Nat) :=
  simd A 32 false (laneAvx2 A) s

def sse2 (A : Alphabet) (s : List UInt8) : Except UInt8 (List Nat) :=
  simd A 16 true (laneSse2 A) s

inductive Backend | generic | sse2 | avx2
deriving DecidableEq, Repr

/-- `impl Encode for Pipeline<A, Dispatch>`: only the AVX2 arm is vectorised, every other arm
    (`Sse2`, `Generic`) falls through to the generic loop. -/
def dispatch (A : Alphabet) (arm : Backend) (s : List UInt8) : Except UInt8 (List Nat) :=
  match arm with
  | .avx2 => avx2 A s
  | _ => generic A s

/-- `Display for EncodedSequence`: `as_char` of every symbol (`none` = the `match` has no arm,
    which cannot happen for a value of the enum) -/
def display (A : Alphabet) (v : List Nat) : Option (List UInt8) :=
  v.mapM A.asAscii

end Encode
end LMV
