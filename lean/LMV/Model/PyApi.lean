/-
  LMV.Model.PyApi — the entry points of the Python module as compositions of core-library
  operations (C17).

  mirrors: lightmotif-py/lightmotif/lib.rs::{dict_to_alphabet_array, CountMatrix::__init__,
           CountMatrix::normalize, WeightMatrix::log_odds, ScoringMatrix::__init__,
           ScoringMatrix::{calculate, pvalue, score, reverse_complement, max_score},
           StripedScores::{max, argmax, threshold}, Scanner::__init__, create, stripe, scan,
           Motif::{from_counts, from_weights}},
           lightmotif-py/lightmotif/io.rs::{convert_error, JasparMotif::{convert, convert16},
           UniprobeMotif::convert, TransfacMotif::convert, Loader::__init__},
           lightmotif/src/abc.rs::{Background::new, Background::uniform} (validation only)

  The glue only.  What the core operations compute is the subject of C01–C03, C05, C07, C09–C11,
  C14; here they are constructors of a term language (`Op`), and an entry point is modelled by the
  branch structure that decides WHICH composition of them runs on WHICH arguments, and which Python
  exception is raised instead.  The parts of the glue that move data themselves (dictionary ->
  array by symbol, dictionary of columns -> matrix) are modelled concretely.
-/
import LMV.Model.Abc

namespace LMV
namespace PyApi

/-- Python exceptions raised by the glue -/
inductive Exc where
  | valueError | typeError | indexError | overflowError | runtimeError | osError | attributeError
deriving Repr, DecidableEq

def Exc.name : Exc → String
  | .valueError => "ValueError" | .typeError => "TypeError" | .indexError => "IndexError"
  | .overflowError => "OverflowError" | .runtimeError => "RuntimeError" | .osError => "OSError"
  | .attributeError => "AttributeError"

/-- operations of the core library (and its satellite crates) the glue calls -/
inductive Op where
  | encode              -- EncodedSequence::encode          (C05)
  | toStriped           -- EncodedSequence::to_striped      (C04)
  | configure           -- StripedSequence::configure       (C04)
  | fromSequences       -- CountMatrix::from_sequences      (C09)
  | countsNew           -- CountMatrix::new
  | pseudoDefault | pseudoUniform | pseudoArray        -- Pseudocounts::{default, from(f32), from(array)}
  | toFreq              -- CountMatrix::to_freq
  | toWeight            -- FrequencyMatrix::to_weight(None)
  | bgUniform | bgNew   -- Background::{uniform, new}
  | rescale | clone     -- WeightMatrix::{rescale, clone}
  | toScoring           -- WeightMatrix::to_scoring
  | toScoringWithBase   -- WeightMatrix::to_scoring_with_base
  | scoringNew          -- ScoringMatrix::new(background, data)
  | score               -- Pipeline::dispatch().score       (C01)
  | scoresMax | scoresArgmax | scoresThreshold          -- StripedScores::{max, argmax, threshold} (C07)
  | toScoreDistribution | distPvalue | distScore        -- pwm::dist                           (C11)
  | tfmNew | tfmPvalue | tfmScore                       -- lightmotif-tfmpvalue               (C12, C13)
  | f64ToF32 | f32ToF64                                 -- the `as` casts around the MEME conversions
  | reverseComplement   -- ScoringMatrix::reverse_complement (C10)
  | maxScore            -- ScoringMatrix::max_score
  | scannerNew | scannerThreshold | scannerBlockSize | scannerNext   -- scan::Scanner (C02)
  | readJaspar | readJaspar16 | readTransfac | readUniprobe         -- lightmotif-io readers (C14)
  | recordIntoCounts | recordToCounts | recordIntoFreqs            -- record -> matrix
  | motif               -- the (counts, pwm, pssm) triple of a `Motif`
  | noCounts            -- `counts: None`
deriving Repr, DecidableEq

/-- compositions of core operations over named inputs and literals -/
inductive Term where
  | arg (name : String)
  | f32 (bits : Nat)
  | f64 (bits : Nat)
  | nat (n : Nat)
  | arr (bits : List Nat)           -- an array of f32 bit patterns indexed by symbol
  | app0 (op : Op)
  | app1 (op : Op) (a : Term)
  | app2 (op : Op) (a b : Term)
  | app3 (op : Op) (a b c : Term)
deriving Repr, DecidableEq

abbrev Res := Except Exc Term

deriving instance DecidableEq for Except

/-- the operations of a term in evaluation (post-)order: what actually runs, innermost first -/
def Term.ops : Term → List Op
  | .arg _ | .f32 _ | .f64 _ | .nat _ | .arr _ => []
  | .app0 op => [op]
  | .app1 op a => a.ops ++ [op]
  | .app2 op a b => a.ops ++ b.ops ++ [op]
  | .app3 op a b c => a.ops ++ b.ops ++ c.ops ++ [op]

/-- an interpretation of the core operations in a value domain `V` (for instance the core models of
    C01–C14, or the core library itself) -/
structure Interp (V : Type) where
  arg : String → V
  f32 : Nat → V
  f64 : Nat → V
  nat : Nat → V
  arr : List Nat → V
  op0 : Op → V
  op1 : Op → V → V
  op2 : Op → V → V → V
  op3 : Op → V → V → V → V

/-- the value of a composition under an interpretation -/
def Term.eval {V : Type} (I : Interp V) : Term → V
  | .arg n => I.arg n
  | .f32 b => I.f32 b
  | .f64 b => I.f64 b
  | .nat n => I.nat n
  | .arr bs => I.arr bs
  | .app0 op => I.op0 op
  | .app1 op a => I.op1 op (a.eval I)
  | .app2 op a b => I.op2 op (a.eval I) (b.eval I)
  | .app3 op a b c => I.op3 op (a.eval I) (b.eval I) (c.eval I)

/-! ### Python arguments as the glue sees them -/

/-- one `(key, value)` of a Python dict passed as pseudocount / background.
    `key = none`: not a `str`; otherwise its UTF-8 bytes.  `val = none`: not convertible to `float`;
    otherwise the bit pattern of the value as `f32`. -/
structure DictEntry where
  key : Option (List UInt8)
  val : Option Nat
deriving Repr, DecidableEq

/-- an optional Python argument -/
inductive PyArg where
  | none
  | float (bits : Nat)        -- anything `extract::<f32>` accepts (float, int, bool)
  | dict (entries : List DictEntry)
  | other                      -- any other type
deriving Repr, DecidableEq

/-- `dict_to_alphabet_array`: an array of `K` zeros; for every entry in iteration order: the key must
    be a `str` (`TypeError`) of length one (`ValueError`) naming a symbol (`ValueError`), the value a
    number (`TypeError`); `p[symbol] = value` (a later entry for the same symbol overwrites). -/
def dictToAlphabetArray (A : Alphabet) (es : List DictEntry) : Except Exc (List Nat) :=
  es.foldlM (init := List.replicate A.K 0) fun p e =>
    match e.key with
    | none => .error .typeError
    | some bytes =>
      match bytes with
      | [b] =>
        match A.fromAscii b with
        | none => .error .valueError
        | some sym =>
          match e.val with
          | none => .error .typeError
          | some v => .ok (p.set sym v)
      | _ => .error .valueError

/-! ### `Background::new` / `Background::uniform`: the validation the glue's branches depend on -/

def f32 (bits : Nat) : Float32 := Float32.ofBits bits.toUInt32

/-- `Background::new`: every frequency in `0.0..=1.0` and the left-to-right `f32` sum `== 1.0` -/
def bgValid (bits : List Nat) : Bool :=
  let rec go (sum : Float32) : List Nat → Bool
    | [] => sum == 1.0
    | b :: bs =>
      let f := f32 b
      if (0.0 : Float32) ≤ f && f ≤ 1.0 then go (sum + f) bs else false
  go 0.0 bits

/-- `Background::uniform().frequencies()` -/
def uniformBits (A : Alphabet) : List Nat :=
  (List.range A.K).map fun i =>
    if i ≠ A.dflt then ((1.0 : Float32) / (Float32.ofNat (A.K - 1))).toBits.toNat
    else (0.0 : Float32).toBits.toNat

/-- `a != b` on `&[f32]` of equal length -/
def freqsNe (a b : List Nat) : Bool :=
  a.length != b.length || (List.zip a b).any fun (x, y) => f32 x != f32 y

/-- the floating-point facts the branches of the glue depend on.  The theorems quantify over every
    such structure (no laws assumed); the driver runs the IEEE instance. -/
structure F32Ops where
  bgValid : List Nat → Bool                 -- does `Background::new` accept these frequencies?
  freqsNe : List Nat → List Nat → Bool      -- `a != b` on frequency slices
  uniform : Alphabet → List Nat             -- `Background::uniform().frequencies()`

/-- IEEE `f32` as executed -/
def ieee : F32Ops := { bgValid := bgValid, freqsNe := freqsNe, uniform := uniformBits }

/-- the background argument of `log_odds` / `ScoringMatrix.__init__`: the term and its frequencies -/
def backgroundOf (F : F32Ops) (A : Alphabet) : PyArg → Except Exc (Term × List Nat)
  | .none => .ok (.app0 .bgUniform, F.uniform A)
  | .dict es =>
    match dictToAlphabetArray A es with
    | .error e => .error e
    | .ok p => if F.bgValid p then .ok (.app1 .bgNew (.arr p), p) else .error .valueError
  | .float _ => .error .typeError
  | .other => .error .typeError

/-! ### `CountMatrix.normalize`, `WeightMatrix.log_odds` -/

/-- the pseudocount argument of `normalize`: `float` is tried first, then `dict` -/
def pseudoOf (A : Alphabet) : PyArg → Res
  | .none => .ok (.app0 .pseudoDefault)
  | .float b => .ok (.app1 .pseudoUniform (.f32 b))
  | .dict es =>
    match dictToAlphabetArray A es with
    | .error e => .error e
    | .ok p => .ok (.app1 .pseudoArray (.arr p))
  | .other => .error .typeError

/-- `CountMatrix.normalize(pseudocount)` = `self.to_freq(pseudo).to_weight(None)` -/
def normalize (A : Alphabet) (self : Term) (pseudocount : PyArg) : Res :=
  match pseudoOf A pseudocount with
  | .error e => .error e
  | .ok p => .ok (.app1 .toWeight (.app2 .toFreq self p))

/-- `WeightMatrix.log_odds(background, base)` (repaired: a background that differs from the one the
    weights were computed with is applied by `rescale`; an equal one needs no work).
    `selfBg` = `self.background().frequencies()`. -/
def logOdds (F : F32Ops) (A : Alphabet) (self : Term) (selfBg : List Nat) (background : PyArg) (base : Nat) : Res :=
  match backgroundOf F A background with
  | .error e => .error e
  | .ok (bg, freqs) =>
    let pwm := if F.freqsNe freqs selfBg then Term.app2 .rescale self bg else Term.app1 .clone self
    .ok (.app2 .toScoringWithBase pwm (.f32 base))

/-- the pinned commit: the arms of `match bg != old { false => rescale(bg), true => clone() }` swapped -/
def logOddsAsIs (F : F32Ops) (A : Alphabet) (self : Term) (selfBg : List Nat) (background : PyArg) (base : Nat) : Res :=
  match backgroundOf F A background with
  | .error e => .error e
  | .ok (bg, freqs) =>
    let pwm := if F.freqsNe freqs selfBg then Term.app1 .clone self else Term.app2 .rescale self bg
    .ok (.app2 .toScoringWithBase pwm (.f32 base))

/-! ### matrices built from dictionaries of columns -/

/-- a column of `CountMatrix(values)`: `none` = the value has no `len()` / is not iterable;
    entries: `none` = not an `int`, otherwise the integer -/
abbrev CountColumn := Option (List (Option Int))

/-- result of the concrete constructors: the matrix as a list of rows -/
abbrev Rows := List (List Nat)

/-- write `vals` into column `j` of `m` (rows `0 .. vals.length`) -/
def setColumn (m : Rows) (j : Nat) (vals : List Nat) : Rows :=
  (List.zip m (List.range m.length)).map fun (row, i) =>
    match vals[i]? with
    | some v => row.set j v
    | none => row

/-- convert the entries of a count column: `extract::<u32>()` -/
def countEntries : List (Option Int) → Except Exc (List Nat)
  | [] => .ok []
  | none :: _ => .error .typeError
  | some i :: rest =>
    if i < 0 ∨ i ≥ 4294967296 then .error .overflowError
    else match countEntries rest with
      | .error e => .error e
      | .ok xs => .ok (i.toNat :: xs)

/-- one symbol of the loop of `CountMatrix.__init__`: state = (matrix so far, symbol index) -/
def countStep (A : Alphabet) (st : Option Rows × Nat) (c : Option CountColumn) : Except Exc (Option Rows × Nat) :=
  match c with
  | none => .ok (st.1, st.2 + 1)                          -- key absent
  | some none => .error .typeError                        -- `column.len()` fails
  | some (some entries) =>
    let m := match st.1 with
      | some m => m
      | none => List.replicate entries.length (List.replicate A.K 0)
    if m.length ≠ entries.length then .error .valueError
    else match countEntries entries with
      | .error e => .error e
      | .ok vals => .ok (some (setColumn m st.2 vals), st.2 + 1)

/-- `CountMatrix.__init__(values)`: `cols[j]` is `values.get(letter j)` for the symbols in alphabet order.
    The first column present fixes the number of rows; a column of another length is a `ValueError`;
    no column at all is a `ValueError`; missing columns stay zero.  (`CountMatrix::new` accepts every matrix.) -/
def countMatrixInit (A : Alphabet) (cols : List (Option CountColumn)) : Except Exc Rows :=
  match cols.foldlM (countStep A) (none, 0) with
  | .error e => .error e
  | .ok (none, _) => .error .valueError
  | .ok (some m, _) => .ok m

/-- a column of `ScoringMatrix(values)`: `none` = not a `list`; entries: `none` = not a number -/
abbrev ScoreColumn := Option (List (Option Nat))

def scoreEntries : List (Option Nat) → Except Exc (List Nat)
  | [] => .ok []
  | none :: _ => .error .typeError
  | some b :: rest =>
    match scoreEntries rest with
    | .error e => .error e
    | .ok xs => .ok (b :: xs)

/-- `ScoringMatrix.__init__(values, background)`: the background is extracted first; then as for counts,
    except that a column must be a `list` (`TypeError`) -/
def scoringMatrixInit (F : F32Ops) (A : Alphabet) (cols : List (Option ScoreColumn)) (background : PyArg) :
    Except Exc (Term × Rows) :=
  match backgroundOf F A background with
  | .error e => .error e
  | .ok (bg, _) =>
    let step := fun (st : Option Rows × Nat) (c : Option ScoreColumn) =>
      let (data, j) := st
      match c with
      | none => Except.ok (data, j + 1)
      | some none => .error Exc.typeError
      | some (some entries) =>
        let m := match data with
          | some m => m
          | none => List.replicate entries.length (List.replicate A.K 0)
        if m.length ≠ entries.length then .error .valueError
        else match scoreEntries entries with
          | .error e => .error e
          | .ok vals => .ok (some (setColumn m j vals), j + 1)
    match cols.foldlM step (none, 0) with
    | .error e => .error e
    | .ok (none, _) => .error .valueError
    | .ok (some m, _) => .ok (bg, m)

/-! ### scoring -/

/-- the alphabet tag of a Python object -/
inductive Tag where
  | dna | protein
deriving Repr, DecidableEq

/-- `ScoringMatrix.calculate(sequence)`: `sequence.configure(pssm)` (the Python object is mutated),
    then `Pipeline::dispatch().score(pssm, sequence)`.  Returns (scores, the sequence afterwards). -/
def calculate (pssmTag seqTag : Tag) (pssm seq : Term) : Except Exc (Term × Term) :=
  if pssmTag = seqTag then
    let seq' := Term.app2 .configure seq pssm
    .ok (.app2 .score pssm seq', seq')
  else .error .valueError

/-- one striped sequence scored with a list of motifs in order (`calculate` on every one) -/
def calculateAll (seqTag : Tag) (seq : Term) : List (Tag × Term) → Except Exc (List Term × Term)
  | [] => .ok ([], seq)
  | (t, pssm) :: rest =>
    match calculate t seqTag pssm seq with
    | .error e => .error e
    | .ok (sc, seq') =>
      match calculateAll seqTag seq' rest with
      | .error e => .error e
      | .ok (scs, seq'') => .ok (sc :: scs, seq'')

def scoresMax (scores : Term) : Term := .app1 .scoresMax scores
def scoresArgmax (scores : Term) : Term := .app1 .scoresArgmax scores
def scoresThreshold (scores : Term) (t : Nat) : Term := .app2 .scoresThreshold scores (.f32 t)

/-- `ScoringMatrix.pvalue(score, method)` -/
def pvalue (pssm : Term) (score : Nat) (method : String) : Res :=
  if method = "tfmpvalue" then .ok (.app2 .tfmPvalue (.app1 .tfmNew pssm) (.f64 score))
  else if method = "meme" then
    .ok (.app2 .distPvalue (.app1 .toScoreDistribution pssm) (.app1 .f64ToF32 (.f64 score)))
  else .error .valueError

/-- `ScoringMatrix.score(pvalue, method)` -/
def scoreOf (pssm : Term) (pvalue : Nat) (method : String) : Res :=
  if method = "tfmpvalue" then .ok (.app2 .tfmScore (.app1 .tfmNew pssm) (.f64 pvalue))
  else if method = "meme" then
    .ok (.app1 .f32ToF64 (.app2 .distScore (.app1 .toScoreDistribution pssm) (.f64 pvalue)))
  else .error .valueError

/-- `ScoringMatrix.reverse_complement()` -/
def reverseComplement (tag : Tag) (pssm : Term) : Res :=
  match tag with
  | .dna => .ok (.app1 .reverseComplement pssm)
  | .protein => .error .runtimeError

def maxScore (pssm : Term) : Term := .app1 .maxScore pssm

/-- `Scanner.__init__(pssm, sequence, threshold, block_size)` / `scan(...)`: DNA only; the sequence is
    configured for the motif, then `Scanner::new(pssm, seq)` with the threshold and block size set -/
def scannerInit (pssmTag seqTag : Tag) (pssm seq : Term) (threshold block : Nat) : Res :=
  match pssmTag, seqTag with
  | .dna, .dna =>
    .ok (.app2 .scannerBlockSize
          (.app2 .scannerThreshold (.app2 .scannerNew pssm (.app2 .configure seq pssm)) (.f32 threshold))
          (.nat block))
  | .protein, .protein => .error .valueError
  | _, _ => .error .valueError

/-! ### `create`, `stripe`, `load` -/

def tagAlphabet : Tag → Alphabet
  | .dna => dna
  | .protein => protein

/-- `Motif::from_counts` and the tail of `create`: weights = `counts.to_freq(0.0).to_weight(None)`,
    scoring = `weights.to_scoring()` -/
def motifFromCounts (counts : Term) : Term :=
  let weights := Term.app1 .toWeight (.app2 .toFreq counts (.app1 .pseudoUniform (.f32 0)))
  .app3 .motif counts weights (.app1 .toScoring weights)

/-- `Motif::from_weights` -/
def motifFromWeights (weights : Term) : Term :=
  .app3 .motif (.app0 .noCounts) weights (.app1 .toScoring weights)

/-- `create(sequences, protein)`.  Items in iteration order: `none` = not a `str` (`TypeError`),
    otherwise the bytes; the first item that is not a `str` or does not encode stops the loop.
    Then `CountMatrix::from_sequences` (unequal lengths: `ValueError`). -/
def create (tag : Tag) (items : List (Option (List UInt8))) : Res :=
  let A := tagAlphabet tag
  let rec loop : List (Option (List UInt8)) → Except Exc Unit
    | [] => .ok ()
    | none :: _ => .error .typeError
    | some s :: rest => if s.all (fun b => (A.fromAscii b).isSome) then loop rest else .error .valueError
  match loop items with
  | .error e => .error e
  | .ok () =>
    let lens := items.map fun i => (i.getD []).length
    if lens.all (· == lens.headD 0) then
      .ok (motifFromCounts (.app1 .fromSequences (.app1 .encode (.arg "sequences"))))
    else .error .valueError

/-- `stripe(sequence, protein)` = `EncodedSequence(sequence, protein).stripe()` -/
def stripe (tag : Tag) (text : List UInt8) : Res :=
  if text.all (fun b => ((tagAlphabet tag).fromAscii b).isSome) then
    .ok (.app1 .toStriped (.app1 .encode (.arg "sequence")))
  else .error .valueError

/-- what `Loader.__init__` finds behind its `file` argument -/
inductive FileArg where
  | path (isReadable : Bool)    -- `os.fsdecode(file)` works; `File::open` succeeds or not
  | binary                      -- a file-like object whose `read(0)` returns `bytes`
  | text                        -- a file-like object whose `read(0)` returns something else
  | noRead                      -- neither a path nor an object with a `read` method
  | lateBad (e : Exc)           -- `read(0)` returns `bytes`, every later `read(n)` fails: `e = typeError` (it
                                -- returns something that is not `bytes`), `osError` (it raises an `OSError` with
                                -- an errno, which `PyFileRead` turns into a Rust `io::Error`), or any other
                                -- exception it raises (left PENDING by `PyFileRead` behind a generic `io::Error`)
deriving Repr, DecidableEq

/-- readers whose constructor already reads from the file (`Reader::new` of jaspar / jaspar16 looks for the
    first `>`; the TRANSFAC reader fills its first line) and DROPS an `io::Error` met there; the UniPROBE
    reader reads nothing before the first record is asked for -/
def readsAtCreation (format : String) : Bool :=
  format = "jaspar" || format = "jaspar16" || format = "transfac"

/-- `Loader.__init__(file, format, protein)`: the file is opened first, then the format is dispatched -/
def loaderInit (file : FileArg) (format : String) (protein : Bool) : Res :=
  match file with
  | .path false => .error .osError
  | .text => .error .typeError
  | .noRead => .error .attributeError
  | .lateBad e =>
    -- the format is dispatched before anything is read; a Python exception left pending by a read made
    -- while the reader is created is raised by `Loader.__init__` itself (never a result with an exception
    -- set); an `io::Error` without a pending exception is dropped there and met again at the first record
    let pending := e != .osError && readsAtCreation format
    if format = "jaspar" then (if protein then .error .valueError else if pending then .error e else .ok (.app1 .readJaspar (.arg "file")))
    else if format = "jaspar16" then (if pending then .error e else .ok (.app1 .readJaspar16 (.arg "file")))
    else if format = "transfac" then (if pending then .error e else .ok (.app1 .readTransfac (.arg "file")))
    else if format = "uniprobe" then .ok (.app1 .readUniprobe (.arg "file"))
    else .error .valueError
  | _ =>
    if format = "jaspar" then (if protein then .error .valueError else .ok (.app1 .readJaspar (.arg "file")))
    else if format = "jaspar16" then .ok (.app1 .readJaspar16 (.arg "file"))
    else if format = "transfac" then .ok (.app1 .readTransfac (.arg "file"))
    else if format = "uniprobe" then .ok (.app1 .readUniprobe (.arg "file"))
    else .error .valueError

/-- what a reader yields for one record -/
inductive RecordResult where
  | errIo | errData | errParse
  | errPy (e : Exc)              -- an I/O error behind which a Python exception is pending (file objects)
  | ok (hasCounts : Bool)        -- TRANSFAC: `to_counts()` may be `None`
deriving Repr, DecidableEq

/-- `{Jaspar,Uniprobe,Transfac}Motif::convert*` on one item of the reader -/
def convertRecord (format : String) (r : RecordResult) : Res :=
  match r with
  | .errIo => .error .osError
  | .errPy e => .error e
  | .errData => .error .valueError
  | .errParse => .error .valueError
  | .ok hasCounts =>
    if format = "uniprobe" then
      .ok (motifFromWeights (.app1 .toWeight (.app1 .recordIntoFreqs (.arg "record"))))
    else if format = "transfac" then
      (if hasCounts then .ok (motifFromCounts (.app1 .recordToCounts (.arg "record"))) else .error .valueError)
    else .ok (motifFromCounts (.app1 .recordIntoCounts (.arg "record")))

end PyApi
end LMV
