/-
  LMV.Model.PwmScalar — the scalar carriers of the matrix-conversion models (C09, C10).

  Every numeric model in LMV.Model.Pwm / LMV.Model.Revcomp is polymorphic in the scalar type and
  is used at three instances (DESIGN.md §4 "Floats"):

  * an abstract carrier: any `α` with `[Arith α] [Logs α]` — operations and NO laws; the structural
    theorems hold for IEEE `f32` as executed because nothing about the operations is assumed;
  * exact `Rat` (`Arith Rat` below; no logarithms);
  * IEEE `Float32` (`Arith Float32`, `Logs Float32` below) — the instance the compiled driver runs
    in the same operation order as the Rust, compared bit for bit.

  mirrors: the `f32` operations used by lightmotif/src/pwm/mod.rs and lightmotif/src/abc.rs:
           `+ - * /`, `abs`, `==`, `<`, `<=`, `u32 as f32` / `usize as f32`, `partial_cmp`,
           `log2`, `log10`, `ln`, `f32::NEG_INFINITY`, the literals `0.0`, `1.0`, `0.01`, and the
           neutral element of `impl Sum for f32` (which is `-0.0` for the pinned toolchain,
           rustc ≥ 1.83: `[].iter().sum::<f32>()` is `-0.0`, checked by the correspondence run).
-/

namespace LMV
namespace Pwm

/-- arithmetic and comparisons, no laws -/
class Arith (α : Type) where
  /-- the literal `0.0` -/
  zero : α
  /-- what `iter().sum::<f32>()` starts from -/
  sumZero : α
  /-- the literal `1.0` -/
  one : α
  /-- the literal `0.01` (tolerance of `FrequencyMatrix::new`) -/
  hundredth : α
  /-- `x as f32` for an unsigned integer -/
  ofNat : Nat → α
  add : α → α → α
  sub : α → α → α
  mul : α → α → α
  div : α → α → α
  abs : α → α
  /-- `==` -/
  beq : α → α → Bool
  /-- `<` -/
  lt : α → α → Bool
  /-- `<=` -/
  le : α → α → Bool

/-- logarithms and `NEG_INFINITY`, no laws -/
class Logs (α : Type) where
  negInf : α
  log2 : α → α
  log10 : α → α
  ln : α → α

export Arith (zero sumZero one hundredth add sub mul div)
export Logs (negInf log2 log10 ln)

/-- `f32::partial_cmp` expressed with `<` and `==` (`None` for unordered operands) -/
def pcmp {α : Type} [Arith α] (a b : α) : Option Ordering :=
  if Arith.lt a b then some .lt
  else if Arith.beq a b then some .eq
  else if Arith.lt b a then some .gt
  else none

/-! ### exact instance -/

instance : Arith Rat where
  zero := 0
  sumZero := 0
  one := 1
  hundredth := 1 / 100
  ofNat n := (n : Rat)
  add := (· + ·)
  sub := (· - ·)
  mul := (· * ·)
  div := (· / ·)
  abs a := if a < 0 then -a else a
  beq a b := decide (a = b)
  lt a b := decide (a < b)
  le a b := decide (a ≤ b)

/-! ### IEEE instance (what the driver executes) -/

instance : Arith Float32 where
  zero := Float32.ofBits 0
  sumZero := Float32.ofBits 0x80000000
  one := Float32.ofBits 0x3F800000
  hundredth := Float32.ofBits 0x3C23D70A
  ofNat := Float32.ofNat
  add := (· + ·)
  sub := (· - ·)
  mul := (· * ·)
  div := (· / ·)
  abs := Float32.abs
  beq a b := a == b
  lt a b := decide (a < b)
  le a b := decide (a ≤ b)

instance : Logs Float32 where
  negInf := Float32.ofBits 0xFF800000
  log2 := Float32.log2
  log10 := Float32.log10
  ln := Float32.log

end Pwm
end LMV
