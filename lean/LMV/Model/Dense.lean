/-
  LMV.Model.Dense — DenseMatrix as an operation-sequence machine, and its layout arithmetic.

  mirrors: lightmotif/src/dense.rs::DenseMatrix::{new, with_capacity, resize, from_rows, fill,
           Index/IndexMut<usize>, Index/IndexMut<MatrixCoordinates>, iter, iter().rev(), iter_mut,
           clone, eq, stride} and `struct Row` (`repr(align(32))` on x86-64, 16 elsewhere)
  Cells are bit patterns (`Nat`); `dflt` is the bit pattern of the element type's `Default` value
  (0 for u8, u32, f32, i64; 4 for the library's own `Nucleotide`, whose default is the wildcard `N`).
-/
import LMV.Model.Mat

namespace LMV
namespace Dense

inductive Op
  | new (rows : Nat)
  | withCapacity (rows cap : Nat)
  | resize (n : Nat)
  | fromRows (rows : List (List Nat))
  | fill (v : Nat)
  | setRow (i : Nat) (vals : List Nat)      -- `m[i].copy_from_slice(vals)`
  | setCell (i j v : Nat)                   -- `m[MatrixCoordinates::new(i, j)] = v`
  | iterMutSet (v : Nat)                    -- `for (k, row) in m.iter_mut().enumerate() { row[0] = v + k % 2 }`
  | iterMutRevSet (v : Nat)                 -- `for (k, row) in m.iter_mut().rev().enumerate() { row[0] = v + k % 2 }`
  | clone                                   -- continue with `m.clone()`
  | cloneFrom (rows v : Nat)                -- `m.clone_from(&b)` with `b = new(rows)` filled with `v`
deriving Repr

variable {C : Nat}

/-- write a whole row from a list (callers check `vals.length = C`) -/
def writeRow (m : Mat Nat C) (i : Nat) (vals : List Nat) : Mat Nat C :=
  (List.range C).foldl (fun d j => d.set i j (vals.getD j 0)) m

/-- one operation; `Except.error` = the Rust call panics (the object is left as it was) -/
def step (dflt : Nat) (m : Mat Nat C) : Op → Except String (Mat Nat C)
  | .new rows => .ok ((Mat.empty : Mat Nat C).resize rows dflt)
  | .withCapacity rows _ => .ok ((Mat.empty : Mat Nat C).resize rows dflt)
  | .resize n => .ok (m.resize n dflt)
  | .fromRows rows =>
    -- `uninitialized(len)` then `dense[i].copy_from_slice(row)`: panics on a row of the wrong length
    if rows.all (·.length == C) then
      .ok (Mat.ofFn rows.length fun r c => (rows.getD r []).getD c 0)
    else .error "copy_from_slice: length mismatch"
  | .fill v => .ok (m.fill v)
  | .setRow i vals =>
    if i < m.rows then
      if vals.length = C then .ok (writeRow m i vals) else .error "copy_from_slice: length mismatch"
    else .error "index out of bounds"
  | .setCell i j v =>
    if i < m.rows ∧ j < C then .ok (m.set i j v) else .error "index out of bounds"
  | .iterMutSet v =>
    if C = 0 then .error "index out of bounds" else
    .ok ((List.range m.rows).foldl (fun d k => d.set k 0 (v + k % 2)) m)
  | .iterMutRevSet v =>
    if C = 0 then .error "index out of bounds" else
    .ok ((List.range m.rows).foldl (fun d k => d.set (m.rows - 1 - k) 0 (v + k % 2)) m)
  | .clone => .ok m
  | .cloneFrom rows v => .ok (((Mat.empty : Mat Nat C).resize rows dflt).fill v)

/-- run an operation list; a panicking operation leaves the matrix unchanged -/
def run (dflt : Nat) (m : Mat Nat C) : List Op → Mat Nat C
  | [] => m
  | op :: ops => match step dflt m op with
    | .ok m' => run dflt m' ops
    | .error _ => run dflt m ops

/-! ### layout arithmetic of `Row<T, C>` with `repr(align(A))` -/

/-- `size_of::<Row<T, C>>()`: the array size rounded up to a multiple of the alignment -/
def rowBytes (C size align : Nat) : Nat := (C * size + align - 1) / align * align

/-- `DenseMatrix::stride()` = `size_of::<Row>() / size_of::<T>()` -/
def stride (C size align : Nat) : Nat := rowBytes C size align / size

/-- address of row `i` in the `Vec<Row>` whose buffer starts at `base` -/
def rowAddr (base C size align i : Nat) : Nat := base + i * rowBytes C size align

end Dense
end LMV
