-- Root of the `LMV` library (models, lemmas and property theorems for lightmotif).
import LMV.Model.Mat
import LMV.Model.Abc
import LMV.Model.Encode
import LMV.Props.C05
