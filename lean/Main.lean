/-
  lmv-driver: reads case lines `<id> <op> <args…>` on stdin, prints `<id> <model answer>`.
  Imports only LMV.Model.* / LMV.Driver.* (core Lean; no Mathlib) so that it links as an executable.
-/
import LMV.Driver.C05

open LMV.Driver

def dispatchLine (toks : List String) : String :=
  match toks with
  | "enc" :: _ => C05.handle toks
  | _ => "bad-op"

partial def loop (h : IO.FS.Stream) (out : IO.FS.Stream) : IO Unit := do
  let line ← h.getLine
  if line.isEmpty then return ()
  let toks := (line.trimAscii.toString.splitOn " ").filter (· ≠ "")
  match toks with
  | id :: rest =>
    out.putStrLn s!"{id} {dispatchLine rest}"
  | [] => pure ()
  loop h out

def main : IO Unit := do
  let stdin ← IO.getStdin
  let stdout ← IO.getStdout
  loop stdin stdout
