#!/bin/sh
# Build the framework from files on disk only (offline).
set -e
cd "$(dirname "$0")"
export CARGO_NET_OFFLINE=true
python3 tools/gen_glue.py
python3 tools/extract.py
(cd lean && lake build LMV lmv-driver)
mkdir -p .build
cp /repo/Cargo.lock harness/Cargo.lock
(cd harness && CARGO_TARGET_DIR=../.build/harness-target cargo build --offline --release && CARGO_TARGET_DIR=../.build/harness-target cargo build --offline)
# AddressSanitizer build of the harness for C06 (same flags as tools/c06_runner.sh); not fatal here —
# the runner rebuilds and reports if it is missing
(cd harness && RUSTFLAGS="-Zsanitizer=address" CARGO_TARGET_DIR=../.build/asan-target CARGO_PROFILE_RELEASE_DEBUG=line-tables-only cargo +nightly build --offline --release --target x86_64-unknown-linux-gnu >/dev/null 2>&1) || true
