#!/bin/sh
# Build the framework from files on disk only (offline).
set -e
cd "$(dirname "$0")"
export CARGO_NET_OFFLINE=true
python3 tools/gen_glue.py
python3 tools/extract.py
(cd lean && lake build LMV lmv-driver)
mkdir -p .build
cp /repo/Cargo.lock harness/Cargo.lock
(cd harness && CARGO_TARGET_DIR=../.build/harness-target cargo build --offline --release && CARGO_TARGET_DIR=../.build/harness-target cargo build --offline)
