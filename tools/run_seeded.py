#!/usr/bin/env python3
"""tools/run_seeded.py [<seeded-dir>…] — apply each seeded change (seeded/<id>/patch.diff) to /repo,
run the quick check of the property it breaks, undo the change, and record in seeded/<id>/meta.json
whether (and how) the check noticed.  /repo must be clean before; it is restored afterwards
(`git -C /repo checkout -- .`).  Never commits anything in /repo."""
import json, os, subprocess, sys, glob, re
ROOT = os.path.dirname(os.path.dirname(os.path.abspath(__file__)))
REPO = os.environ.get("LMV_REPO", "/repo")

def sh(cmd, **kw):
    return subprocess.run(cmd, stdout=subprocess.PIPE, stderr=subprocess.STDOUT, text=True, **kw)

def main():
    dirs = sys.argv[1:] or sorted(glob.glob(os.path.join(ROOT, "seeded", "*")))
    if sh(["git", "-C", REPO, "status", "--porcelain", "--untracked-files=no"]).stdout.strip():
        print("refusing: /repo has uncommitted changes"); return 2
    for d in dirs:
        meta_p = os.path.join(d, "meta.json")
        meta = json.load(open(meta_p))
        d = os.path.abspath(d)
        meta_p = os.path.join(d, "meta.json")
        patch = os.path.join(d, "patch.diff")
        r = sh(["git", "-C", REPO, "apply", patch])
        if r.returncode != 0:
            meta["last_run"] = {"applied": False, "error": r.stdout[-400:]}
        else:
            try:
                res = {}
                for pid in meta.get("checks", [meta["property"]]):
                    c = sh([os.path.join(ROOT, "check"), pid, "--tier", "quick"], cwd=ROOT)
                    viol = [l for l in c.stdout.splitlines() if l.startswith("VIOLATION")]
                    summ = [l for l in c.stdout.splitlines() if l.startswith("[")]
                    res[pid] = {"exit": c.returncode, "violation_lines": viol, "summary": summ[-1] if summ else ""}
                    if viol:
                        m = re.search(r"replay=(\S+)", viol[0])
                        if m and os.path.exists(os.path.join(ROOT, m.group(1))):
                            txt = open(os.path.join(ROOT, m.group(1))).read()
                            j = json.loads(txt[:txt.rindex("}") + 1])
                            res[pid]["replay_what"] = j.get("what")
                            res[pid]["replay_case"] = (j.get("case") or "")[:300]
                            res[pid]["broken"] = j.get("broken") or j.get("also_broken")
                    if c.returncode == 1 and meta.get("stop_first"):
                        break
                meta["last_run"] = {"applied": True, "results": res,
                                    "caught": any(v["exit"] == 1 for v in res.values())}
            finally:
                sh(["git", "-C", REPO, "checkout", "--", "."])
        json.dump(meta, open(meta_p, "w"), indent=1)
        lr = meta["last_run"]
        print(os.path.basename(d), "caught" if lr.get("caught") else "MISSED" if lr.get("applied") else "patch-failed")
    # the runs above rewrote evidence/*.json with numbers from PATCHED trees: put the committed ones back
    sh(["git", "-C", ROOT, "checkout", "--", "evidence"])
    return 0

if __name__ == "__main__":
    sys.exit(main())
