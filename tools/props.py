"""Per-property configuration of the orchestrator: one JSON file per property under tools/props/
(which theorem modules, which harness stream, which build profiles, the files the mirror models
were written against, the non-triviality rule quoted into the evidence)."""
import json, os

HERE = os.path.dirname(os.path.abspath(__file__))

TRUSTED_BASE = [
    "Lean 4.33.0 kernel (lake build; thorough tier re-checks the .olean with leanchecker)",
    "axioms: at most propext, Classical.choice, Quot.sound (audited per theorem with collectAxioms on every run); no native_decide / bv_decide / sorry / user axioms",
    "tools/extract.py (regex-level translator of table-like code into LMV/Gen; Gen.Abc: the finite-domain functions of abc.rs executed on their whole domain by the harness, `abc-dump`); the same tables drive the executable model compared with the implementation",
    "the correspondence check: harness generators, canonicalisation, the Lean driver (compiled from the very definitions the theorems are about)",
    "property oracles in harness/src (slow definition-level re-computation used only to decide whether a concrete case violates the property)",
    "rustc/LLVM, the CPU's execution of the intrinsics, Rust std, generic-array/typenum are outside the model",
]

PROPS = {}
for fn in sorted(os.listdir(os.path.join(HERE, "props"))):
    if fn.endswith(".json"):
        PROPS[fn[:-5]] = json.load(open(os.path.join(HERE, "props", fn)))
