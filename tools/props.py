"""Per-property configuration of the orchestrator (which theorem modules, which harness stream,
which build profiles, the non-triviality rule quoted into the evidence)."""

TRUSTED_BASE = [
    "Lean 4.33.0 kernel (lake build; thorough tier re-checks the .olean with leanchecker)",
    "axioms: at most propext, Classical.choice, Quot.sound (audited per theorem with collectAxioms on every run); no native_decide / bv_decide / sorry / user axioms",
    "tools/extract.py (regex-level translator of table-like code into LMV/Gen); the same tables drive the executable model compared with the implementation",
    "the correspondence check: harness generators, canonicalisation, the Lean driver (compiled from the very definitions the theorems are about)",
    "property oracles in harness/src (slow definition-level re-computation used only to decide whether a concrete case violates the property)",
    "rustc/LLVM, the CPU's execution of the intrinsics, Rust std, generic-array/typenum are outside the model",
]

PROPS = {
    "C05": {
        "lean": ["LMV.Props.C05"],
        "harness": "c05",
        "profiles": ["release"],
        "files": ["lightmotif/src/abc.rs", "lightmotif/src/pli/mod.rs", "lightmotif/src/pli/dispatch.rs",
                  "lightmotif/src/pli/platform/avx2.rs", "lightmotif/src/pli/platform/sse2.rs", "lightmotif/src/seq.rs"],
        "rule": "byte strings for DNA and protein through generic/sse2/avx2 pipelines and the three forced dispatcher arms, APIs encode/encode_raw/encode_into/from_str; boundary stream = every length 0..130, one invalid byte at every block-offset class, all 256 byte values; random stream to 5 000 (thorough 70 000) bytes. non-trivial = length >= 32 (a vector block executes) or an invalid byte present; distinct = distinct case line",
        "strength": "full: acceptance iff all bytes are letters, first offending byte, symbol = letter rank, display round trip, and equality of AVX2 / SSE2 / every dispatcher arm with the generic encoder, for every byte string of every length (induction over blocks); per-byte lane facts by kernel evaluation over all 256 values on the regenerated tables",
        "assumptions": ["the vector kernels use only lane-wise byte operations (cmpeq/blendv/and/andnot/or), modelled per byte; their block structure (stride, loop test, rescan, scalar tail) is mirrored by hand and tied by the correspondence run"],
    },
}
