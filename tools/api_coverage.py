#!/usr/bin/env python3
"""tools/api_coverage.py — which public functions of the library are never named by the harnesses?
(a cheap inventory used to look for entry points the streams do not drive; not part of any check)"""
import os, re, glob
REPO = os.environ.get("LMV_REPO", "/repo")
ROOT = os.path.dirname(os.path.dirname(os.path.abspath(__file__)))
hs = ""
for f in glob.glob(os.path.join(ROOT, "harness/src/*.rs")) + glob.glob(os.path.join(ROOT, "pyharness/*.py")) + glob.glob(os.path.join(ROOT, "pyharness/core/*.rs")):
    hs += open(f).read()
for crate in ["lightmotif/src", "lightmotif-io/src", "lightmotif-tfmpvalue/src"]:
    for f in sorted(glob.glob(os.path.join(REPO, crate, "**/*.rs"), recursive=True)):
        src = open(f).read()
        src = src.split("#[cfg(test)]")[0]
        names = sorted(set(re.findall(r"pub\s+(?:const\s+|unsafe\s+)?fn\s+(\w+)", src)))
        missing = [n for n in names if not re.search(r"\b" + n + r"\b", hs)]
        if missing:
            print(os.path.relpath(f, REPO), "→", ", ".join(missing))
