#!/usr/bin/env python3
"""tools/drift.py <ID> [--record] — source-drift guard (DESIGN.md §3.4).

Hashes the comment-stripped, whitespace-normalised text of every Rust file a property's mirror
models were written against and compares with the hashes recorded when the models were last
reviewed (tools/drift.json).  A changed hash is NOT a violation: the orchestrator multiplies the
correspondence budget for that property by 10 in the same run and records the drift in evidence.
"""
import hashlib, json, os, re, sys
HERE = os.path.dirname(os.path.abspath(__file__))
sys.path.insert(0, HERE)
from props import PROPS
from extract import strip_comments, REPO

def h(rel):
    try:
        s = strip_comments(open(os.path.join(REPO, rel)).read())
    except OSError:
        return "missing"
    return hashlib.sha256(re.sub(r"\s+", " ", s).encode()).hexdigest()[:16]

def main():
    pid = sys.argv[1]
    path = os.path.join(HERE, "drift.json")
    db = json.load(open(path)) if os.path.exists(path) else {}
    files = PROPS[pid].get("files", [])
    cur = {f: h(f) for f in files}
    if "--record" in sys.argv:
        db[pid] = cur
        json.dump(db, open(path, "w"), indent=1, sort_keys=True)
        print(json.dumps({"recorded": len(cur)}))
        return
    old = db.get(pid, {})
    changed = [f for f in files if old.get(f) != cur[f]]
    print(json.dumps({"files": len(files), "changed": changed}))

if __name__ == "__main__":
    main()
