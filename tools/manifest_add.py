#!/usr/bin/env python3
"""tools/manifest_add.py <ID> [<technique>] — add (or refresh) the MANIFEST.json entry of a property
from tools/props/<ID>.json (`strength` -> level text, `assumptions` -> level note)."""
import json, os, sys
ROOT = os.path.dirname(os.path.dirname(os.path.abspath(__file__)))
pid = sys.argv[1]
cfg = json.load(open(os.path.join(ROOT, "tools", "props", pid + ".json")))
tech = sys.argv[2] if len(sys.argv) > 2 else cfg.get("technique", "Lean 4 proof + model/implementation correspondence")
m = json.load(open(os.path.join(ROOT, "MANIFEST.json")))
entry = {
    "property_id": pid,
    "quick_cmd": f"./check {pid} --tier quick",
    "thorough_cmd": f"./check {pid} --tier thorough",
    "evidence_file": f"evidence/{pid}.json",
    "replay_cmd_template": f"./check {pid} --replay {{path}}",
    "engine": "lean-proofs",
    "level_claimed": {"category": "proof",
                      "text": ("Lean 4 theorems about a mirror model, tied to the Rust by a correspondence run and a property oracle. Proved: " + cfg.get("strength", ""))[:6000],
                      "design_ref": f"DESIGN.md §7 {pid}"},
    "level_note": ("Trusted: Lean kernel, axioms propext/Classical.choice/Quot.sound only; the hand-written mirror model (correspondence-checked on every run); harness generators and oracle. " + " ; ".join(cfg.get("assumptions", [])))[:6000],
    "technique": tech,
}
m["checks"] = [c for c in m["checks"] if c["property_id"] != pid] + [entry]
m["checks"].sort(key=lambda c: c["property_id"])
m["not_applicable"] = [x for x in m.get("not_applicable", []) if x["property_id"] != pid]
for e in m.get("engines", []):
    e["serves_properties"] = sorted(set(e["serves_properties"] + [pid]))
json.dump(m, open(os.path.join(ROOT, "MANIFEST.json"), "w"), indent=1)
print("added", pid)
