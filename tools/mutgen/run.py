#!/usr/bin/env python3
"""Run sampled mutants: run.py <sample.tsv> <minutes> [nworkers]"""
import sys, os, json, re, time, subprocess, threading, queue, signal, resource, shutil

BASE = "/tmp/mut"
SAMPLE = sys.argv[1]
MINUTES = float(sys.argv[2])
NW = int(sys.argv[3]) if len(sys.argv) > 3 else 6
TEST_TIMEOUT = 15 * 60
BUILD_TIMEOUT = 10 * 60
T0 = time.time()
DEADLINE = T0 + MINUTES * 60
RESULTS = os.environ.get("MUT_RESULTS", BASE + "/results.tsv")
LOGDIR = os.environ.get("MUT_LOGDIR", BASE + "/logs")
OUTDIR = os.environ.get("MUT_OUTDIR", BASE + "/out")
os.makedirs(LOGDIR, exist_ok=True)
os.makedirs(OUTDIR, exist_ok=True)

LINE_RE = re.compile(r"^test .* \.\.\. (ok|FAILED)$")


def signature(log):
    rust, py = [], []
    for ln in log.splitlines():
        ln = ln.rstrip()
        if LINE_RE.match(ln):
            rust.append(ln)
        elif re.match(r"^Ran \d+ tests? in ", ln):
            py.append(re.sub(r" in [0-9.]+s$", "", ln))
        elif re.match(r"^(OK|FAILED)( \(.*\))?$", ln):
            py.append(ln)
    return sorted(rust), py


BASELINE = signature(open(os.environ.get("MUT_BASELINE", BASE + "/base0.log")).read())
assert len(BASELINE[0]) == 98 and BASELINE[1] == ["Ran 22 tests", "OK"], BASELINE[1]


def limits():
    os.setsid()
    resource.setrlimit(resource.RLIMIT_AS, (24 << 30, 24 << 30))
    resource.setrlimit(resource.RLIMIT_CORE, (0, 0))


def run(cmd, cwd, timeout, env=None):
    """Run in its own session; kill the whole process group on timeout."""
    cmd = ["prlimit", "--as=%d" % (24 << 30), "--core=0"] + cmd
    p = subprocess.Popen(cmd, cwd=cwd, stdout=subprocess.PIPE, stderr=subprocess.STDOUT,
                         start_new_session=True, env=env)
    try:
        out, _ = p.communicate(timeout=timeout)
        return p.returncode, out.decode("utf8", "replace"), False
    except subprocess.TimeoutExpired:
        try:
            os.killpg(p.pid, signal.SIGKILL)
        except ProcessLookupError:
            pass
        out, _ = p.communicate()
        return -9, out.decode("utf8", "replace"), True
    finally:
        try:
            os.killpg(p.pid, signal.SIGKILL)  # stray children
        except (ProcessLookupError, PermissionError):
            pass


lock = threading.Lock()
done_ids = set()
if os.path.exists(RESULTS):
    for ln in open(RESULTS):
        if ln.strip() and not ln.startswith("id\t"):
            done_ids.add(int(ln.split("\t")[0]))
else:
    with open(RESULTS, "w") as fh:
        fh.write("id\tfile\tline\toperator\toriginal\tnew\toutcome\tnote\tseconds\n")


def record(c, outcome, note, secs):
    with lock:
        with open(RESULTS, "a") as fh:
            fh.write("\t".join([str(c["id"]), c["file"], str(c["line"]), c["op"],
                                json.dumps(c["orig"]), json.dumps(c["new"]), outcome, note,
                                "%.0f" % secs]) + "\n")
        print("[%5.1f min] m%-4d %-40s:%-4d %-32s %s %s" % (
            (time.time() - T0) / 60, c["id"], c["file"], c["line"], c["op"], outcome, note),
            flush=True)


def process(c, wt):
    t = time.time()
    env = dict(os.environ, CARGO_TERM_COLOR="never")
    subprocess.run(["git", "checkout", "--", "."], cwd=wt, check=True)
    path = os.path.join(wt, c["file"])
    src = open(path).read()
    assert src[c["start"]:c["end"]] == c["orig"], (c, src[c["start"]:c["end"]])
    mutated = src[:c["start"]] + c["new"] + src[c["end"]:]
    with open(path, "w") as fh:
        fh.write(mutated)
    rc, out, to = run(["cargo", "build", "--workspace", "--offline"], wt, BUILD_TIMEOUT, env)
    with open("%s/m%d.build.log" % (LOGDIR, c["id"]), "w") as fh:
        fh.write(out)
    if rc != 0:
        m = re.search(r"^error(\[E\d+\])?: .*", out, re.M)
        return record(c, "build-failed", ("build-timeout" if to else (m.group(0)[:100] if m else "error")).replace("\t", " "), time.time() - t)
    m = re.search(r"^warning: (?!unused manifest key).*", out, re.M)
    if m:
        return record(c, "build-failed", ("new-" + m.group(0)[:100]).replace("\t", " "), time.time() - t)
    rc, out, to = run(["cargo", "test", "--workspace", "--no-fail-fast", "--offline"],
                      wt, TEST_TIMEOUT, env)
    with open("%s/m%d.test.log" % (LOGDIR, c["id"]), "w") as fh:
        fh.write(out)
    if to:
        return record(c, "timeout", "", time.time() - t)
    if re.search(r"^error(\[E\d+\])?: (?!test failed|\d+ targets? failed)", out, re.M) and \
            "could not compile" in out:
        return record(c, "build-failed", "test-targets-do-not-compile", time.time() - t)
    sig = signature(out)
    if sig != BASELINE:
        diff = sorted(set(sig[0]) ^ set(BASELINE[0]))
        note = ""
        if diff:
            names = sorted(set(re.sub(r"^test (.*) \.\.\. \w+$", r"\1", d) for d in diff))
            note = "%d tests differ: %s" % (len(names), ",".join(names)[:160])
        if sig[1] != BASELINE[1]:
            note += " python:" + "/".join(sig[1])
        return record(c, "killed", note.strip(), time.time() - t)
    # survivor
    d = "%s/m%d" % (OUTDIR, c["id"])
    os.makedirs(d, exist_ok=True)
    diff = subprocess.run(["git", "diff", "HEAD"], cwd=wt, capture_output=True, text=True).stdout
    with open(d + "/patch.diff", "w") as fh:
        fh.write(diff)
    oline = src.split("\n")[c["line"] - 1]
    mline = mutated.split("\n")[c["line"] - 1]
    with open(d + "/info.txt", "w") as fh:
        fh.write("id: m%d\nlocation: %s:%d (col %d)\noperator: %s\ntoken: %s -> %s\n"
                 "original: %s\nmutated:  %s\n" % (
                     c["id"], c["file"], c["line"], c["col"] + 1, c["op"],
                     json.dumps(c["orig"]), json.dumps(c["new"]), oline, mline))
    return record(c, "survived", "", time.time() - t)


def worker(i, q):
    wt = "%s/w%d" % (BASE, i)
    while time.time() < DEADLINE:
        try:
            c = q.get_nowait()
        except queue.Empty:
            break
        try:
            process(c, wt)
        except Exception as e:  # noqa
            record(c, "error", repr(e)[:200].replace("\t", " ").replace("\n", " "), 0)
    subprocess.run(["git", "checkout", "--", "."], cwd=wt)


def main():
    q = queue.Queue()
    n = 0
    for ln in open(SAMPLE):
        f = ln.rstrip("\n").split("\t")
        c = dict(id=int(f[0]), file=f[1], line=int(f[2]), col=int(f[3]), start=int(f[4]),
                 end=int(f[5]), op=f[6], orig=json.loads(f[7]), new=json.loads(f[8]))
        if c["id"] in done_ids:
            continue
        q.put(c); n += 1
    print("queued", n, "candidates;", NW, "workers; deadline in", MINUTES, "min", flush=True)
    ths = [threading.Thread(target=worker, args=(i, q)) for i in range(NW)]
    for t in ths:
        t.start()
    for t in ths:
        t.join()
    print("finished; remaining unprocessed:", q.qsize(), "elapsed %.1f min" % ((time.time() - T0) / 60))


main()
