#!/usr/bin/env python3
"""Third batch: gen3.py <new-root> <old-root> <sample1.tsv> <sample2.tsv> <out-all.tsv> <out-sample.tsv>

sample1 (taken on <old-root>) and sample2 (taken on <new-root>) are the exact
regenerated samples of batches 1 and 2 (checked against results.tsv/results2.tsv).
Everything already sampled is dropped; all remaining sites outside
avx2.rs::stripe_avx2 are taken (at most N_OUT, stratified by file), and at most
N_STRIPE from inside stripe_avx2.
"""
import sys, random, collections, json, difflib
sys.path.insert(0, "/tmp/mut")
import gen

NEW, OLD, S1, S2, OUT_ALL, OUT_SAMPLE = sys.argv[1:7]
N_OUT, N_STRIPE, FIRST_ID, SEED = 330, 10, 2000, 20260929
AVX2 = "lightmotif/src/pli/platform/avx2.rs"


def fn_range(src, name):
    import re
    m = re.search(r"\bfn\s+%s\b" % re.escape(name), src)
    code, _ = gen.mask(src)
    k = code.index("{", m.end())
    d, j = 0, k
    while True:
        if code[j] == "{":
            d += 1
        elif code[j] == "}":
            d -= 1
            if d == 0:
                break
        j += 1
    return src.count("\n", 0, m.start()) + 1, src.count("\n", 0, j) + 1


def read_sample(path):
    out = []
    for ln in open(path):
        f = ln.rstrip("\n").split("\t")
        out.append(dict(id=int(f[0]), file=f[1], line=int(f[2]), col=int(f[3]), op=f[6],
                        orig=json.loads(f[7]), new=json.loads(f[8])))
    return out


def main():
    random.seed(SEED)
    allc = gen.collect(NEW)
    gen.write_all(allc, OUT_ALL)
    newl, oldl = {}, {}
    for f in gen.FILES:
        try:
            newl[f] = open("%s/%s" % (NEW, f)).read().split("\n")
            oldl[f] = open("%s/%s" % (OLD, f)).read().split("\n")
        except FileNotFoundError:
            pass
    for c in allc:
        c["text"] = newl[c["file"]][c["line"] - 1].strip()

    exact = set()      # (file, line, col, op, new) in the NEW tree
    fuzzy = set()      # (file, op, orig, stripped line text): old line was not carried over verbatim
    coarse = set()     # the coordinator's key, for reporting only
    for c in read_sample(S2):
        exact.add((c["file"], c["line"], c["col"], c["op"], c["new"]))
        coarse.add((c["file"], c["op"], c["orig"], newl[c["file"]][c["line"] - 1].strip()))
    linemap = {}
    for f in oldl:
        sm = difflib.SequenceMatcher(None, oldl[f], newl[f], autojunk=False)
        mp = {}
        for a, b, n in sm.get_matching_blocks():
            for k in range(n):
                mp[a + k + 1] = b + k + 1
        linemap[f] = mp
    nfuzzy = 0
    for c in read_sample(S1):
        text = oldl[c["file"]][c["line"] - 1].strip()
        coarse.add((c["file"], c["op"], c["orig"], text))
        nl = linemap[c["file"]].get(c["line"])
        if nl is not None:
            exact.add((c["file"], nl, c["col"], c["op"], c["new"]))
        else:
            fuzzy.add((c["file"], c["op"], c["orig"], text)); nfuzzy += 1
    print("batch-1 candidates on lines that changed since: %d" % nfuzzy)

    remaining, dropped = [], 0
    for c in allc:
        if (c["file"], c["line"], c["col"], c["op"], c["new"]) in exact or \
                (c["file"], c["op"], c["orig"], c["text"]) in fuzzy:
            dropped += 1
        else:
            remaining.append(c)
    s0, s1 = fn_range("\n".join(newl[AVX2]), "stripe_avx2")

    def in_stripe(c):
        return c["file"] == AVX2 and s0 <= c["line"] <= s1

    stripe = [c for c in remaining if in_stripe(c)]
    pool = [c for c in remaining if not in_stripe(c)]
    ncoarse = sum(1 for c in pool if (c["file"], c["op"], c["orig"], c["text"]) in coarse)
    print("sites: %d; already sampled: %d; remaining: %d outside stripe_avx2 (lines %d-%d), %d inside" % (
        len(allc), dropped, len(pool), s0, s1, len(stripe)))
    print("remaining sites outside stripe_avx2 that share file+operator+token+line text with an "
          "earlier candidate (other column of the same line, or identical line elsewhere): %d" % ncoarse)

    # Prefer sites that do not collide with an earlier candidate on the coarse key
    # (file + operator + original token + line text); collide-only sites are used
    # only if the strict pool is too small.
    def strict(lst, need):
        a = [c for c in lst if (c["file"], c["op"], c["orig"], c["text"]) not in coarse]
        if len(a) >= need:
            return a
        b = [c for c in lst if (c["file"], c["op"], c["orig"], c["text"]) in coarse]
        random.shuffle(b)
        return a + b[:need - len(a)]

    pool = strict(pool, N_OUT)
    stripe = strict(stripe, N_STRIPE)
    print("pools after the coarse-key exclusion: %d outside, %d inside stripe_avx2" % (len(pool), len(stripe)))

    def opclass(c):
        return c["op"].split(":")[0]

    def pick(lst, q):
        byop = collections.defaultdict(list)
        for c in lst:
            byop[opclass(c)].append(c)
        for v in byop.values():
            random.shuffle(v)
        picked = []
        classes = sorted(byop, key=lambda k: len(byop[k]))
        for k in classes:
            if len(picked) < q and byop[k]:
                picked.append(byop[k].pop())
        while len(picked) < q:
            avail = [k for k in classes if byop[k]]
            if not avail:
                break
            ww = [len(byop[k]) ** 0.5 for k in avail]
            picked.append(byop[random.choices(avail, weights=ww)[0]].pop())
        return picked

    byfile = collections.defaultdict(list)
    for c in pool:
        byfile[c["file"]].append(c)
    sample = []
    if len(pool) <= N_OUT:
        sample.extend(pool)
    else:
        # proportional, largest-remainder, at least min(4, available) per file
        raw = {f: N_OUT * len(l) / len(pool) for f, l in byfile.items()}
        quota = {f: min(len(byfile[f]), max(min(4, len(byfile[f])), int(raw[f]))) for f in raw}
        order = sorted(raw, key=lambda f: raw[f] - int(raw[f]), reverse=True)
        i = 0
        while sum(quota.values()) < N_OUT:
            f = order[i % len(order)]; i += 1
            if quota[f] < len(byfile[f]):
                quota[f] += 1
        while sum(quota.values()) > N_OUT:
            f = max(quota, key=lambda f: quota[f])
            quota[f] -= 1
        for f in gen.FILES:
            if f in byfile:
                sample.extend(pick(byfile[f], quota[f]))
    sample.extend(pick(stripe, min(N_STRIPE, len(stripe))))
    random.shuffle(sample)
    with open(OUT_SAMPLE, "w") as fh:
        for i, c in enumerate(sample):
            fh.write("\t".join(str(x) for x in
                               (FIRST_ID + i, c["file"], c["line"], c["col"], c["start"], c["end"], c["op"])) +
                     "\t" + json.dumps(c["orig"]) + "\t" + json.dumps(c["new"]) + "\n")
    print("sampled: %d (inside stripe_avx2: %d)" % (len(sample), sum(1 for c in sample if in_stripe(c))))
    per = collections.Counter(c["file"] for c in sample)
    for f in gen.FILES:
        n = len(byfile.get(f, [])) + (len(stripe) if f == AVX2 else 0)
        if n:
            print("  %-45s remaining=%4d sampled=%3d" % (f, n, per[f]))
    alls = collections.Counter(opclass(c) for c in pool + stripe)
    smp = collections.Counter(opclass(c) for c in sample)
    print("operator classes (remaining / sampled):")
    for op in sorted(alls):
        print("  %-10s %4d %3d" % (op, alls[op], smp[op]))


main()
