#!/usr/bin/env python3
"""Generate single-token mutation candidates for the lightmotif workspace.

Usage: gen.py <root-of-checkout> <out-all.tsv> <out-sample.tsv> [N]
"""
import re, sys, random, collections, json

ROOT = OUT_ALL = OUT_SAMPLE = None
N = 450
SEED = 20260927

FILES = [
    "lightmotif/src/abc.rs", "lightmotif/src/dense.rs", "lightmotif/src/seq.rs",
    "lightmotif/src/scores.rs", "lightmotif/src/scan.rs", "lightmotif/src/sampler.rs",
    "lightmotif/src/pwm/mod.rs", "lightmotif/src/pwm/dist.rs",
    "lightmotif/src/pli/mod.rs", "lightmotif/src/pli/dispatch.rs",
    "lightmotif/src/pli/platform/generic.rs", "lightmotif/src/pli/platform/sse2.rs",
    "lightmotif/src/pli/platform/avx2.rs",
    "lightmotif-tfmpvalue/src/lib.rs",
    "lightmotif-io/src/jaspar/mod.rs", "lightmotif-io/src/jaspar/parse.rs",
    "lightmotif-io/src/jaspar16/mod.rs", "lightmotif-io/src/jaspar16/parse.rs",
    "lightmotif-io/src/transfac/reader.rs", "lightmotif-io/src/transfac/mod.rs",
    "lightmotif-io/src/transfac/parse.rs",
    "lightmotif-io/src/uniprobe/mod.rs", "lightmotif-io/src/uniprobe/parse.rs",
    "lightmotif-py/lightmotif/lib.rs", "lightmotif-py/lightmotif/io.rs",
    "lightmotif-py/lightmotif/pyfile.rs",
]

ENABLED_FEATURES = {"sampling", "tfmpvalue"}


# ---------------------------------------------------------------- masking ---
def mask(src):
    """Return (code, code_with_strings): same length as src, with comments
    (and, for `code`, string/char literals) replaced by spaces."""
    n = len(src)
    a = list(src)  # comments + strings blanked
    b = list(src)  # comments only blanked

    def blank(arr, i, j):
        for k in range(i, j):
            if arr[k] != "\n":
                arr[k] = " "

    i = 0
    while i < n:
        c = src[i]
        if src.startswith("//", i):
            j = src.find("\n", i)
            j = n if j < 0 else j
            blank(a, i, j); blank(b, i, j)
            i = j
        elif src.startswith("/*", i):
            depth, j = 1, i + 2
            while j < n and depth:
                if src.startswith("/*", j):
                    depth += 1; j += 2
                elif src.startswith("*/", j):
                    depth -= 1; j += 2
                else:
                    j += 1
            blank(a, i, j); blank(b, i, j)
            i = j
        elif c == '"' or (c in "rb" and re.match(r'(?:br|rb|r|b)#*"', src[i:i + 8])
                          and (i == 0 or not (src[i - 1].isalnum() or src[i - 1] == "_"))):
            m = re.match(r'(br|rb|r|b)?(#*)"', src[i:i + 12])
            prefix, hashes = m.group(1) or "", m.group(2)
            start = i
            j = i + m.end()
            if "r" in prefix:
                end = src.find('"' + hashes, j)
                j = n if end < 0 else end + 1 + len(hashes)
            else:
                while j < n and src[j] != '"':
                    j += 2 if src[j] == "\\" else 1
                j += 1
            # keep the quotes, blank the inside
            blank(a, start, j)
            i = j
        elif c == "'" or (c == "b" and src.startswith("b'", i)
                          and not (src[i - 1].isalnum() or src[i - 1] == "_")):
            k = i + 1 if c == "b" else i
            # char literal or lifetime?
            m = re.match(r"'(\\x[0-9a-fA-F]{2}|\\u\{[0-9a-fA-F_]+\}|\\.|[^\\'])'", src[k:k + 14])
            if m:
                blank(a, i, k + m.end())
                i = k + m.end()
            else:
                i = k + 1  # lifetime
        else:
            i += 1
    return "".join(a), "".join(b)


def cfg_eval(expr):
    """Evaluate a cfg predicate for x86_64 linux with the default features."""
    expr = expr.strip()
    m = re.match(r"^(all|any|not)\s*\((.*)\)$", expr, re.S)
    if m:
        parts, depth, cur = [], 0, ""
        for ch in m.group(2):
            if ch == "(":
                depth += 1
            if ch == ")":
                depth -= 1
            if ch == "," and depth == 0:
                parts.append(cur); cur = ""
            else:
                cur += ch
        if cur.strip():
            parts.append(cur)
        vals = [cfg_eval(p) for p in parts]
        if m.group(1) == "all":
            return all(vals)
        if m.group(1) == "any":
            return any(vals)
        return not vals[0]
    if expr == "test":
        return False
    m = re.match(r'^(\w+)\s*=\s*"([^"]*)"$', expr)
    if m:
        k, v = m.groups()
        if k == "target_arch":
            return v == "x86_64"
        if k == "feature":
            return v in ENABLED_FEATURES
        if k == "target_feature":
            return v in ("sse2",)
        return False
    return True  # unknown: keep


def excluded_regions(code, code_s):
    """Regions of items guarded by a cfg that is false for our build."""
    regions = []
    for m in re.finditer(r"#\[cfg\(", code):
        # find end of attribute
        i = m.end() - 1
        depth, j = 0, i
        while True:
            if code[j] == "(":
                depth += 1
            elif code[j] == ")":
                depth -= 1
                if depth == 0:
                    break
            j += 1
        pred = code_s[i + 1:j]
        attr_end = code.index("]", j) + 1
        if cfg_eval(pred):
            continue
        # skip following attributes
        k = attr_end
        while True:
            mm = re.match(r"\s*#\[", code[k:])
            if not mm:
                break
            d, k2 = 0, k + mm.end() - 1
            while True:
                if code[k2] == "[":
                    d += 1
                elif code[k2] == "]":
                    d -= 1
                    if d == 0:
                        break
                k2 += 1
            k = k2 + 1
        # find the end of the item
        d = 0
        end = None
        while k < len(code):
            ch = code[k]
            if ch in "([":
                d += 1
            elif ch in ")]":
                d -= 1
                if d < 0:
                    end = k; break
            elif ch == "{" and d == 0:
                bd, k2 = 0, k
                while True:
                    if code[k2] == "{":
                        bd += 1
                    elif code[k2] == "}":
                        bd -= 1
                        if bd == 0:
                            break
                    k2 += 1
                # `if ... {} else {}` continues
                mm = re.match(r"\s*else\b", code[k2 + 1:])
                if mm:
                    k = k2 + 1 + mm.end()
                    continue
                end = k2 + 1; break
            elif ch == "}" and d == 0:
                end = k; break
            elif ch in ";," and d == 0:
                end = k + 1; break
            k += 1
        regions.append((m.start(), end if end is not None else len(code)))
    return regions


# -------------------------------------------------------------- operators ---
CAMEL = re.compile(r"^[A-Z][a-z]")
COMMUTATIVE = re.compile(
    r"_(add|adds|max|min|and|or|xor|mul|mullo|cmpeq|avg)_|^(max|min|eq|ne)$")


def prev_word(code, pos):
    m = re.search(r"([\w:]+)\s*$", code[max(0, pos - 80):pos])
    return m.group(1) if m else ""


def next_word(code, pos):
    m = re.match(r"\s*([\w:]+)", code[pos:pos + 80])
    return m.group(1) if m else ""


def sites(code):
    """Yield (start, end, operator, replacement) over masked code."""
    out = []

    def add(s, e, op, new):
        out.append((s, e, op, new))

    # relational
    for m in re.finditer(r"(?<= )(<=|>=|==|!=|<|>)(?= )", code):
        t = m.group(1)
        new = {"<=": "<", ">=": ">", "<": "<=", ">": ">=", "==": "!=", "!=": "=="}[t]
        add(m.start(1), m.end(1), "rel:%s->%s" % (t, new), new)
    # arithmetic
    for m in re.finditer(r"(?<= )([+\-*])(?= )", code):
        t = m.group(1)
        pw, nw = prev_word(code, m.start()), next_word(code, m.end())
        if t == "+":
            last = pw.split("::")[-1]
            first = nw.split("::")[0]
            if CAMEL.match(last) and (CAMEL.match(first) or first in ("Send", "Sync")):
                continue  # trait bound `A + B`
            if nw.startswith("'"):
                continue
        new = {"+": "-", "-": "+", "*": "+"}[t]
        add(m.start(1), m.end(1), "arith:%s->%s" % (t, new), new)
    # delete `+ 1` / `- 1`
    for m in re.finditer(r" ([+\-]) 1(?![\w.])", code):
        add(m.start(), m.end(), "del:%s1" % m.group(1), "")
    # integer literals
    for m in re.finditer(
            r"(?<![\w])(\d[\d_]*)((?:u|i)(?:8|16|32|64|128|size))?(?![\w])", code):
        s, e = m.start(1), m.end(1)
        # float or tuple field
        if code[m.end():m.end() + 1] == "." and not code.startswith("..", m.end()) \
                and not re.match(r"\.[a-z_]\w*\s*\(", code[m.end():m.end() + 40]):
            continue  # float literal
        if s >= 1 and code[s - 1] == "." and not (s >= 2 and code[s - 2] == "."):
            continue  # `x.0` or `1.5`
        txt = m.group(1)
        if "_" in txt:
            val = int(txt.replace("_", ""))
        else:
            val = int(txt)
        add(s, e, "int:+1", str(val + 1))
        if val > 0:
            add(s, e, "int:-1", str(val - 1))
    # hex immediates
    for m in re.finditer(r"(?<![\w])0x([0-9a-fA-F_]+)(?![0-9a-fA-F])", code):
        h = m.group(1)
        if "_" in h:
            continue
        val = int(h, 16)
        fmt = "%0" + str(len(h)) + ("X" if re.search(r"[A-F]", h) else "x")
        add(m.start(1), m.end(1), "hex:+1", fmt % (val + 1))
        if val > 0:
            add(m.start(1), m.end(1), "hex:-1", fmt % (val - 1))
    # && / ||
    for m in re.finditer(r"&&(?=\s)", code):
        add(m.start(), m.end(), "logic:&&->||", "||")
    for m in re.finditer(r"\|\|(?=\s)", code):
        before = code[:m.start()].rstrip()
        if not before or not re.search(r"[\w)\]}?]$", before):
            continue
        if re.search(r"\b(move|return|in|else|=>)$", before):
            continue
        add(m.start(), m.end(), "logic:||->&&", "&&")
    # min / max
    for m in re.finditer(r"\.(min|max)\(", code):
        t = m.group(1)
        new = "max" if t == "min" else "min"
        add(m.start(1), m.end(1), "minmax:%s->%s" % (t, new), new)
    # saturating / wrapping
    for m in re.finditer(r"\b(saturating_sub|wrapping_sub|saturating_add)\b", code):
        t = m.group(1)
        new = {"saturating_sub": "wrapping_sub", "wrapping_sub": "saturating_sub",
               "saturating_add": "wrapping_add"}[t]
        add(m.start(1), m.end(1), "sat:%s->%s" % (t, new), new)
    for m in re.finditer(r"_(adds|subs)_(epu8|epi8|epu16|epi16)\b", code):
        new = m.group(1)[:-1] + "_" + m.group(2).replace("epu", "epi")
        add(m.start(1), m.end(2), "sat:%s_%s->%s" % (m.group(1), m.group(2), new), new)
    # booleans
    for m in re.finditer(r"\b(true|false)\b", code):
        new = "false" if m.group(1) == "true" else "true"
        add(m.start(1), m.end(1), "bool:%s->%s" % (m.group(1), new), new)
    # unary not
    for m in re.finditer(r"(?<![\w#!])!(?=[\w(])", code):
        add(m.start(), m.end(), "not:remove", "")
    # argument swap
    for m in re.finditer(
            r"\b([A-Za-z_]\w*)\(([A-Za-z_]\w*), ([A-Za-z_]\w*)(\)|, [\w]+\))", code):
        name, x, y = m.group(1), m.group(2), m.group(3)
        if x == y or COMMUTATIVE.search(name):
            continue
        if name in ("fn", "if", "while", "match", "for", "in", "return", "Some", "Ok", "Err"):
            continue
        if x in ("self", "mut", "ref") or y in ("mut", "ref"):
            continue
        add(m.start(2), m.end(3), "argswap:%s" % name, "%s, %s" % (y, x))
    # unpacklo / unpackhi
    for m in re.finditer(r"unpack(lo|hi)", code):
        new = "hi" if m.group(1) == "lo" else "lo"
        add(m.start(1), m.end(1), "unpack:%s->%s" % (m.group(1), new), new)
    # .rev() removal
    for m in re.finditer(r"\.rev\(\)", code):
        add(m.start(), m.end(), "rev:remove", "")
    # ranges
    for m in re.finditer(r"\.\.=", code):
        add(m.start(), m.end(), "range:..=->..", "..")
    for m in re.finditer(r"(?<=[\w)\]])\.\.(?=[\w(])", code):
        add(m.start(), m.end(), "range:..->..=", "..=")
    # skip(1) removal
    for m in re.finditer(r"\.skip\(1\)", code):
        add(m.start(), m.end(), "skip1:remove", "")
    return out


def collect(root):
    """All candidate sites of the checkout at `root`, as a list of dicts."""
    allc = []
    for f in FILES:
        try:
            src = open("%s/%s" % (root, f)).read()
        except FileNotFoundError:
            continue
        code, code_s = mask(src)
        regs = excluded_regions(code, code_s)
        # attributes other than cfg are kept (they are code), cfg attrs blanked
        arr = list(code)
        for (s, e) in regs:
            for k in range(s, e):
                if arr[k] != "\n":
                    arr[k] = " "
        code2 = "".join(arr)
        # blank remaining #[cfg(...)] / #![...] attribute texts themselves
        code2 = re.sub(r"#!?\[(?:cfg|cfg_attr|doc|allow|derive|inline|target_feature|repr)\b[^\n]*?\]",
                       lambda m: " " * len(m.group(0)), code2)
        line_starts = [0]
        for i, ch in enumerate(src):
            if ch == "\n":
                line_starts.append(i + 1)
        import bisect
        seen = set()
        for (s, e, op, new) in sites(code2):
            if (s, e, new) in seen:
                continue
            seen.add((s, e, new))
            ln = bisect.bisect_right(line_starts, s)
            col = s - line_starts[ln - 1]
            allc.append(dict(file=f, start=s, end=e, line=ln, col=col, op=op,
                             orig=src[s:e], new=new))
    allc.sort(key=lambda c: (FILES.index(c["file"]), c["start"], c["op"], c["new"]))
    for i, c in enumerate(allc):
        c["sid"] = i
    return allc


def write_all(allc, path):
    with open(path, "w") as fh:
        for c in allc:
            fh.write("\t".join(str(c[k]) for k in
                               ("sid", "file", "line", "col", "start", "end", "op")) +
                     "\t" + json.dumps(c["orig"]) + "\t" + json.dumps(c["new"]) + "\n")


def main():
    random.seed(SEED)
    allc = collect(ROOT)
    write_all(allc, OUT_ALL)
    # ------------------------------------------------------------ sampling --
    byfile = collections.defaultdict(list)
    for c in allc:
        byfile[c["file"]].append(c)
    total = len(allc)
    quota = {}
    for f, lst in byfile.items():
        quota[f] = min(len(lst), max(8, round(N * len(lst) / total)))
    # rescale the proportional part so that the sum is about N
    over = sum(quota.values()) - N
    if over > 0:
        big = [f for f in quota if quota[f] > 8]
        tot_big = sum(quota[f] for f in big)
        for f in big:
            quota[f] = max(8, quota[f] - round(over * quota[f] / tot_big))

    def opclass(c):
        return c["op"].split(":")[0]

    sample = []
    for f, lst in byfile.items():
        byop = collections.defaultdict(list)
        for c in lst:
            byop[opclass(c)].append(c)
        for v in byop.values():
            random.shuffle(v)
        q = quota[f]
        picked = []
        # pass 1: one of each operator class (rarest classes first)
        classes = sorted(byop, key=lambda k: len(byop[k]))
        for k in classes:
            if len(picked) < q and byop[k]:
                picked.append(byop[k].pop())
        # pass 2: proportional to sqrt(remaining) via weighted draw
        while len(picked) < q:
            avail = [k for k in classes if byop[k]]
            if not avail:
                break
            w = [len(byop[k]) ** 0.5 for k in avail]
            k = random.choices(avail, weights=w)[0]
            picked.append(byop[k].pop())
        sample.extend(picked)
    # make sure every operator (full name) is represented at least once
    have = set(c["op"] for c in sample)
    chosen = set(c["sid"] for c in sample)
    for op in sorted(set(c["op"] for c in allc) - have):
        cands = [c for c in allc if c["op"] == op and c["sid"] not in chosen]
        c = random.choice(cands)
        sample.append(c); chosen.add(c["sid"])
    random.shuffle(sample)
    with open(OUT_SAMPLE, "w") as fh:
        for i, c in enumerate(sample):
            fh.write("\t".join(str(x) for x in
                               (i, c["file"], c["line"], c["col"], c["start"], c["end"], c["op"])) +
                     "\t" + json.dumps(c["orig"]) + "\t" + json.dumps(c["new"]) + "\n")
    # report
    print("total sites:", total, "sampled:", len(sample))
    per = collections.Counter(c["file"] for c in sample)
    for f in FILES:
        if f in byfile:
            print("  %-45s sites=%4d sampled=%3d" % (f, len(byfile[f]), per[f]))
    print("operators (all / sampled):")
    alls = collections.Counter(c["op"] for c in allc)
    smp = collections.Counter(c["op"] for c in sample)
    for op in sorted(alls):
        print("  %-40s %4d %3d" % (op, alls[op], smp[op]))


if __name__ == "__main__":
    ROOT, OUT_ALL, OUT_SAMPLE = sys.argv[1:4]
    N = int(sys.argv[4]) if len(sys.argv) > 4 else 450
    main()
