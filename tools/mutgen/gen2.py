#!/usr/bin/env python3
"""Second batch: gen2.py <new-root> <old-root> <old-sample.tsv> <out-all.tsv> <out-sample.tsv> [N]

Sites are regenerated from <new-root> with gen.py.  Candidates whose
(file, stripped original source line text, operator) was in the first sample
are excluded.  Weighted away from avx2.rs::stripe_avx2 (<= 15), towards the
non-platform files.
"""
import sys, re, random, collections, json
sys.path.insert(0, "/tmp/mut")
import gen

NEW, OLD, OLD_SAMPLE, OUT_ALL, OUT_SAMPLE = sys.argv[1:6]
N = int(sys.argv[6]) if len(sys.argv) > 6 else 450
FIRST_ID = 1000
SEED = 20260928
STRIPE_MAX = 15
AVX2 = "lightmotif/src/pli/platform/avx2.rs"


def preferred(f):
    return (f.startswith("lightmotif-io/") or f.startswith("lightmotif-py/")
            or f.startswith("lightmotif-tfmpvalue/")
            or f in ("lightmotif/src/scan.rs", "lightmotif/src/seq.rs", "lightmotif/src/scores.rs",
                     "lightmotif/src/dense.rs", "lightmotif/src/sampler.rs",
                     "lightmotif/src/pwm/mod.rs", "lightmotif/src/pwm/dist.rs",
                     "lightmotif/src/pli/mod.rs"))


def fn_range(src, name):
    """(first line, last line) of `fn name`."""
    m = re.search(r"\bfn\s+%s\b" % re.escape(name), src)
    code, _ = gen.mask(src)
    k = code.index("{", m.end())
    d, j = 0, k
    while True:
        if code[j] == "{":
            d += 1
        elif code[j] == "}":
            d -= 1
            if d == 0:
                break
        j += 1
    return src.count("\n", 0, m.start()) + 1, src.count("\n", 0, j) + 1


def main():
    random.seed(SEED)
    allc = gen.collect(NEW)
    gen.write_all(allc, OUT_ALL)
    # keys of the first sample
    oldlines = {}
    used = set()
    for ln in open(OLD_SAMPLE):
        f = ln.rstrip("\n").split("\t")
        fn, line, op = f[1], int(f[2]), f[6]
        if fn not in oldlines:
            oldlines[fn] = open("%s/%s" % (OLD, fn)).read().split("\n")
        used.add((fn, oldlines[fn][line - 1].strip(), op))
    newlines = {}
    for c in allc:
        if c["file"] not in newlines:
            newlines[c["file"]] = open("%s/%s" % (NEW, c["file"])).read().split("\n")
        c["text"] = newlines[c["file"]][c["line"] - 1].strip()
    pool = [c for c in allc if (c["file"], c["text"], c["op"]) not in used]
    s0, s1 = fn_range(open("%s/%s" % (NEW, AVX2)).read(), "stripe_avx2")
    print("stripe_avx2 spans lines %d-%d" % (s0, s1))

    def in_stripe(c):
        return c["file"] == AVX2 and s0 <= c["line"] <= s1

    stripe = [c for c in pool if in_stripe(c)]
    pool = [c for c in pool if not in_stripe(c)]
    print("sites: %d; after exclusion of the first sample: %d (+%d in stripe_avx2)" % (
        len(allc), len(pool), len(stripe)))

    byfile = collections.defaultdict(list)
    for c in pool:
        byfile[c["file"]].append(c)
    # quotas: preferred files weight 3, others weight 1; min 8; capped by availability
    n_target = N - STRIPE_MAX
    w = {f: (3.0 if preferred(f) else 1.0) * len(l) for f, l in byfile.items()}
    quota = {f: 0 for f in byfile}
    # iterative water-filling so that capped files give their share to the others
    free = set(byfile)
    remaining = n_target
    while free:
        tot = sum(w[f] for f in free)
        capped = [f for f in free
                  if max(8, round(remaining * w[f] / tot)) >= len(byfile[f])]
        if not capped:
            for f in free:
                quota[f] = max(8, round(remaining * w[f] / tot))
            break
        for f in capped:
            quota[f] = len(byfile[f])
            remaining -= quota[f]
            free.discard(f)

    def opclass(c):
        return c["op"].split(":")[0]

    def pick(lst, q):
        byop = collections.defaultdict(list)
        for c in lst:
            byop[opclass(c)].append(c)
        for v in byop.values():
            random.shuffle(v)
        picked = []
        classes = sorted(byop, key=lambda k: len(byop[k]))
        for k in classes:
            if len(picked) < q and byop[k]:
                picked.append(byop[k].pop())
        while len(picked) < q:
            avail = [k for k in classes if byop[k]]
            if not avail:
                break
            ww = [len(byop[k]) ** 0.5 for k in avail]
            k = random.choices(avail, weights=ww)[0]
            picked.append(byop[k].pop())
        return picked

    sample = []
    for f in gen.FILES:
        if f in byfile:
            sample.extend(pick(byfile[f], quota[f]))
    sample.extend(pick(stripe, min(STRIPE_MAX, len(stripe))))
    # every operator (full name) still available should be represented
    have = set(c["op"] for c in sample)
    chosen = set(c["sid"] for c in sample)
    for op in sorted(set(c["op"] for c in pool) - have):
        cands = [c for c in pool if c["op"] == op and c["sid"] not in chosen]
        c = random.choice(cands)
        sample.append(c); chosen.add(c["sid"])
    random.shuffle(sample)
    with open(OUT_SAMPLE, "w") as fh:
        for i, c in enumerate(sample):
            fh.write("\t".join(str(x) for x in
                               (FIRST_ID + i, c["file"], c["line"], c["col"], c["start"], c["end"], c["op"])) +
                     "\t" + json.dumps(c["orig"]) + "\t" + json.dumps(c["new"]) + "\n")
    print("sampled:", len(sample), " inside stripe_avx2:", sum(1 for c in sample if in_stripe(c)))
    per = collections.Counter(c["file"] for c in sample)
    tot = collections.Counter(c["file"] for c in allc)
    for f in gen.FILES:
        if tot[f]:
            print("  %-45s sites=%4d available=%4d sampled=%3d" % (
                f, tot[f], len(byfile.get(f, [])) + (len(stripe) if f == AVX2 else 0), per[f]))
    alls = collections.Counter(opclass(c) for c in pool + stripe)
    smp = collections.Counter(opclass(c) for c in sample)
    print("operator classes (available / sampled):")
    for op in sorted(alls):
        print("  %-10s %4d %3d" % (op, alls[op], smp[op]))


main()
