#!/usr/bin/env python3
"""
tools/extract.py — source -> LMV/Gen translator (DESIGN.md §3.1).

Parses the *current working tree* of /repo and rewrites lean/LMV/Gen/*.lean.  Only table-like
code is translated (alphabet tables, shuffle masks, unpack networks, immediates, load/store
orders, constants); control flow is mirrored by hand in LMV/Model and tied by the correspondence
check.  If a pattern the translator expects is missing, it exits 3 and names the pattern: the
orchestrator reports that as a broken tie, it is never skipped.
"""
import os, re, sys, json, hashlib

REPO = os.environ.get("LMV_REPO", "/repo")
OUT = os.path.join(os.path.dirname(os.path.abspath(__file__)), "..", "lean", "LMV", "Gen")


class ExtractError(Exception):
    pass


# ----------------------------------------------------------------------------- alpha-normalisation
# The generators read DATA out of statements whose variables have the names they had when the mirror
# models were written.  A consistent renaming of the parameters and local variables of a function is not
# a change of the program, so before a file is handed to a generator every function whose binder list
# (parameters, `let` / `for` / simple closure binders, in order of appearance) is recorded in
# tools/gen/binders.json and has the same number of distinct names now gets its NEW names renamed back (in order
# of first appearance) to the recorded names that disappeared.  Any bijective, capture-free renaming yields an alpha-equivalent function, so whatever the
# generators then read is read off a program with the same meaning; when the renaming cannot be made
# bijective and capture-free the text is left alone (and the generators' patterns decide).
BINDERS_FILE = os.path.join(os.path.dirname(os.path.abspath(__file__)), "gen", "binders.json")
CANON_FILES = ["lightmotif/src/pli/platform/avx2.rs", "lightmotif/src/pli/platform/sse2.rs", "lightmotif/src/pli/mod.rs",
               "lightmotif/src/pli/dispatch.rs", "lightmotif/src/pwm/dist.rs"]
_KEYWORDS = {"mut", "ref", "_", "self", "Self", "true", "false", "box"}


def _fn_items(src):
    """(name, start, end) of every `fn` item that has a body, outermost first"""
    items = []
    for m in re.finditer(r"\bfn\s+(\w+)", src):
        i, depth = m.end(), 0
        while i < len(src):
            c = src[i]
            if c in "([":
                depth += 1
            elif c in ")]":
                depth -= 1
            elif c == ";" and depth == 0:
                i = -1
                break
            elif c == "{" and depth == 0:
                break
            i += 1
        if i < 0 or i >= len(src):
            continue
        d, j = 0, i
        while j < len(src):
            if src[j] == "{":
                d += 1
            elif src[j] == "}":
                d -= 1
                if d == 0:
                    break
            j += 1
        items.append((m.group(1), m.start(), j + 1))
    return items


def _idents(pat):
    return [x for x in re.findall(r"[A-Za-z_]\w*", pat) if x not in _KEYWORDS]


def binders_of(item):
    """binder names of a function item, in order of appearance"""
    out = []
    mp = re.search(r"\bfn\s+\w+\s*(?:<[^(]*>)?\s*\(", item)
    if mp:
        depth, j = 1, mp.end()
        while j < len(item) and depth:
            depth += item[j] in "([" 
            depth -= item[j] in ")]"
            j += 1
        params = item[mp.end():j - 1]
        # top-level `name: type` pairs
        d, cur, parts = 0, [], []
        for ch in params:
            if ch in "(<[":
                d += 1
            elif ch in ")>]":
                d -= 1
            if ch == "," and d == 0:
                parts.append("".join(cur)); cur = []
            else:
                cur.append(ch)
        parts.append("".join(cur))
        for p_ in parts:
            if ":" in p_:
                out += [(mp.end(), n) for n in _idents(p_.split(":", 1)[0])]
    for m in re.finditer(r"\blet\s+(?:mut\s+)?([A-Za-z_]\w*)\b|\blet\s+\(([^)]*)\)|\bfor\s+([A-Za-z_]\w*)\s+in\b|\bfor\s+\(([^)]*)\)\s+in\b"
                         r"|\|\s*&?\s*(?:mut\s+)?([A-Za-z_]\w*)\s*\||\|\s*&?\(?\s*([A-Za-z_]\w*)\s*,\s*&?([A-Za-z_]\w*)\s*\)?\s*\|", item):
        for g in m.groups():
            if g:
                out += [(m.start(), n) for n in _idents(g)]
    # a `for _ in …` loop (an unused loop variable) keeps its place in the list under the name `_`
    for m in re.finditer(r"\bfor\s+_\w*\s+in\b", item):
        out.append((m.start(), "_"))
    out.sort(key=lambda x: x[0])
    return [n for _, n in out if n == "_" or n not in _KEYWORDS]


def canon(rel, src):
    try:
        ref_all = json.load(open(BINDERS_FILE)).get(rel, {})
    except Exception:
        return src
    if not ref_all:
        return src
    pieces, last = [], 0
    done_until = 0
    for name, a, b in _fn_items(src):
        if a < done_until or name not in ref_all:
            continue
        item = src[a:b]
        cur, ref = binders_of(item), ref_all[name]
        # names that are new in the current text are mapped, in order of first appearance, onto the recorded
        # names that no longer occur; names that are still there keep their meaning (a mere reordering of
        # statements renames nothing)
        dedup = lambda xs: list(dict.fromkeys(xs))
        # an unused loop variable written `_` / `_name` now: the recorded name at the same position is not
        # expected back
        gone = {ref[i] for i, n in enumerate(cur) if n == "_" and i < len(ref) and ref[i] != "_"} if len(cur) == len(ref) else set()
        new_names = [n for n in dedup(cur) if n not in set(ref) and n != "_"]
        missing = [n for n in dedup(ref) if n not in set(cur) and n not in gone and n != "_"]
        if new_names and len(new_names) == len(missing):
            mp = dict(zip(new_names, missing))
            # capture: a new name must not already occur in the item as something that stays
            others = set(re.findall(r"[A-Za-z_]\w*", item)) - set(mp)
            if not (set(mp.values()) & others):
                rx = re.compile(r"(?<![\.\w])(?<!::)(" + "|".join(map(re.escape, sorted(mp, key=len, reverse=True))) + r")(?!\w)(?!\s*::)")
                item = rx.sub(lambda m_: mp[m_.group(1)], item)
        pieces.append(src[last:a]); pieces.append(item); last = b
        done_until = b
    pieces.append(src[last:])
    return "".join(pieces)


def strip_debug_asserts(src):
    """`debug_assert*!( … );` statements carry no data for a translator (what they assert is executed by the
    dev profile of the correspondence): removed from the text the generators read"""
    out, i = [], 0
    for m in re.finditer(r"\bdebug_assert(?:_eq|_ne)?!\s*\(", src):
        if m.start() < i:
            continue
        depth, j = 1, m.end()
        while j < len(src) and depth:
            depth += src[j] == "("
            depth -= src[j] == ")"
            j += 1
        k = j
        while k < len(src) and src[k] in " \t":
            k += 1
        if k < len(src) and src[k] == ";":
            out.append(src[i:m.start()])
            i = k + 1
    out.append(src[i:])
    return "".join(out)


def inline_consts(src):
    """module-level private `const NAME: T = <integer literal | path expression>;` and non-generic
    `type NAME = <path>;` items are substituted into the text (a named constant for a magic number and a
    type alias for a long path are not changes of the program); then integer products / sums of literals
    inside `.add( … )` and `[ … ]` are folded (`rowptr.add(2 * 4)` reads `rowptr.add(8)`)"""
    defs = {}
    for m in re.finditer(r"(?m)^(?:pub(?:\([^)]*\))?\s+)?const\s+([A-Z][A-Z0-9_]*)\s*:\s*[^=;]+=\s*([^;{}]+);", src):
        init = m.group(2).strip()
        if re.fullmatch(r"-?(0x[0-9a-fA-F_]+|\d[\d_]*)(?:[ui](?:8|16|32|64|size))?", init) or re.fullmatch(r"[<>\w:\s]+", init):
            defs[m.group(1)] = re.sub(r"(?<=[0-9a-fA-F_])(?:[ui](?:8|16|32|64|size))$", "", init)
    for m in re.finditer(r"(?m)^(?:pub(?:\([^)]*\))?\s+)?type\s+([A-Z]\w*)\s*=\s*([^;{}]+);", src):
        # only at nesting depth 0 (not an associated type inside an impl / trait)
        if src[:m.start()].count("{") == src[:m.start()].count("}"):
            defs[m.group(1)] = m.group(2).strip()
    # a few names are too common to be touched unless they were really defined at module level (they were)
    for name, val in sorted(defs.items(), key=lambda kv: -len(kv[0])):
        decl = re.compile(r"(?m)^(?:pub(?:\([^)]*\))?\s+)?(?:const|type)\s+" + re.escape(name) + r"\b[^;]*;")
        src = decl.sub("", src)
        src = re.sub(r"(?<![\w:.])" + re.escape(name) + r"(?![\w(!])", val, src)
    lit = r"(?:0x[0-9a-fA-F_]+|\d[\d_]*)"

    def fold(m):
        inner = m.group(2)
        if not re.fullmatch(r"\s*" + lit + r"(?:\s*[*+]\s*" + lit + r")+\s*", inner):
            return m.group(0)
        toks = re.findall(lit + r"|[*+]", inner)
        vals = [int(t.replace("_", ""), 16) if t.lower().startswith("0x") else (int(t.replace("_", "")) if t not in "*+" else t) for t in toks]
        # products first
        out = [vals[0]]
        for op, v in zip(vals[1::2], vals[2::2]):
            if op == "*":
                out[-1] *= v
            else:
                out.append(v)
        return m.group(1) + str(sum(out)) + m.group(3)
    src = re.sub(r"(\.add\(|\[)([^()\[\]]*)(\)|\.\.\]|\])", fold, src)
    # array lengths spelled `<X as Backend>::Lanes::USIZE` read as the number of lanes `impl Backend for X`
    # declares in this file (`[u8; 16]`)
    lanes = dict(re.findall(r"impl\s+Backend\s+for\s+(\w+)\s*\{\s*type\s+Lanes\s*=\s*U(\d+)\s*;", src))
    if lanes:
        src = re.sub(r"(\[\s*[\w.]+\s*;\s*)<\s*(\w+)\s+as\s+Backend\s*>::Lanes::USIZE(\s*\])",
                     lambda m: m.group(1) + lanes[m.group(2)] + m.group(3) if m.group(2) in lanes else m.group(0), src)
    return src


def read(rel):
    with open(os.path.join(REPO, rel)) as f:
        text = f.read()
    if rel not in CANON_FILES:
        return text
    text = strip_comments(text)
    if not rel.endswith("pwm/dist.rs"):      # Gen.Dist reads the declaration of CDF_RANGE itself
        text = inline_consts(text)
    return strip_debug_asserts(canon(rel, text))


def record_binders():
    ref = {}
    for rel in CANON_FILES:
        with open(os.path.join(REPO, rel)) as f:
            src = f.read()
        fns, until = {}, 0
        for name, a, b in _fn_items(src):
            if a < until:
                continue
            until = b
            if name in fns:
                fns[name] = None          # overloaded name (several impls): not normalised
            else:
                fns[name] = binders_of(src[a:b])
        ref[rel] = {k: v for k, v in fns.items() if v}
    with open(BINDERS_FILE, "w") as f:
        json.dump(ref, f, indent=0, sort_keys=True)
    print(json.dumps({"recorded": {k: len(v) for k, v in ref.items()}}))


def strip_comments(src):
    # remove /* */ and // comments, keeping string/char literals intact enough for our patterns
    out = []
    i, n = 0, len(src)
    while i < n:
        c = src[i]
        if src.startswith("//", i):
            j = src.find("\n", i)
            i = n if j < 0 else j
        elif src.startswith("/*", i):
            j = src.find("*/", i + 2)
            i = n if j < 0 else j + 2
        elif c == '"':
            j = i + 1
            while j < n and src[j] != '"':
                j += 2 if src[j] == "\\" else 1
            out.append(src[i:j + 1])
            i = j + 1
        elif c == "b" and src.startswith("b'", i):
            j = i + 2
            while j < n and src[j] != "'":
                j += 2 if src[j] == "\\" else 1
            out.append(src[i:j + 1])
            i = j + 1
        else:
            out.append(c)
            i += 1
    return "".join(out)


def block_after(src, header_re, what):
    """return the text of the {...} block following the first match of header_re"""
    m = re.search(header_re, src)
    if not m:
        raise ExtractError(f"pattern not found: {what} ({header_re})")
    i = src.find("{", m.end() - 1)
    if i < 0:
        raise ExtractError(f"no block after: {what}")
    depth, j = 0, i
    while j < len(src):
        if src[j] == "{":
            depth += 1
        elif src[j] == "}":
            depth -= 1
            if depth == 0:
                return src[i + 1:j]
        j += 1
    raise ExtractError(f"unbalanced braces after: {what}")


def byte_lit(tok):
    tok = tok.strip()
    m = re.fullmatch(r"b'(\\?.)'", tok)
    if not m:
        raise ExtractError(f"not a byte literal: {tok}")
    s = m.group(1)
    if s.startswith("\\"):
        return {"n": 10, "t": 9, "r": 13, "0": 0, "\\": 92, "'": 39}[s[1]]
    return ord(s)


def lean_list(xs):
    return "[" + ", ".join(str(x) for x in xs) + "]"


def lean_pairs(ps):
    return "[" + ", ".join(f"({a}, {b})" for a, b in ps) + "]"


def load_generators():
    """every tools/gen/*.py exposing NAME and generate()"""
    import importlib.util
    gens = {}
    gdir = os.path.join(os.path.dirname(os.path.abspath(__file__)), "gen")
    for fn in sorted(os.listdir(gdir)):
        if fn.endswith(".py") and not fn.startswith("_"):
            spec = importlib.util.spec_from_file_location("gen_" + fn[:-3], os.path.join(gdir, fn))
            mod = importlib.util.module_from_spec(spec)
            spec.loader.exec_module(mod)
            gens[mod.NAME] = mod.generate
    return gens


def main():
    os.makedirs(OUT, exist_ok=True)
    status = {"ok": True, "modules": {}, "errors": []}
    for name, fn in load_generators().items():
        path = os.path.join(OUT, name + ".lean")
        try:
            text = fn()
        except Exception as e:  # ExtractError or any crash of a generator: a broken tie, never skipped
            status["ok"] = False
            status["errors"].append(f"Gen.{name}: {type(e).__name__}: {e}")
            continue
        old = open(path).read() if os.path.exists(path) else None
        if old != text:
            with open(path, "w") as f:
                f.write(text)
        status["modules"][name] = {"sha256": hashlib.sha256(text.encode()).hexdigest()[:16],
                                   "changed": old is not None and old != text}
    print(json.dumps(status))
    sys.exit(0 if status["ok"] else 3)


if __name__ == "__main__":
    sys.path.insert(0, os.path.dirname(os.path.abspath(__file__)))
    import extract  # noqa: F401  (so that generators importing `extract` see this module)
    if "--record-binders" in sys.argv:
        record_binders()
    else:
        main()
