#!/usr/bin/env python3
"""
tools/extract.py — source -> LMV/Gen translator (DESIGN.md §3.1).

Parses the *current working tree* of /repo and rewrites lean/LMV/Gen/*.lean.  Only table-like
code is translated (alphabet tables, shuffle masks, unpack networks, immediates, load/store
orders, constants); control flow is mirrored by hand in LMV/Model and tied by the correspondence
check.  If a pattern the translator expects is missing, it exits 3 and names the pattern: the
orchestrator reports that as a broken tie, it is never skipped.
"""
import os, re, sys, json, hashlib

REPO = os.environ.get("LMV_REPO", "/repo")
OUT = os.path.join(os.path.dirname(os.path.abspath(__file__)), "..", "lean", "LMV", "Gen")


class ExtractError(Exception):
    pass


def read(rel):
    with open(os.path.join(REPO, rel)) as f:
        return f.read()


def strip_comments(src):
    # remove /* */ and // comments, keeping string/char literals intact enough for our patterns
    out = []
    i, n = 0, len(src)
    while i < n:
        c = src[i]
        if src.startswith("//", i):
            j = src.find("\n", i)
            i = n if j < 0 else j
        elif src.startswith("/*", i):
            j = src.find("*/", i + 2)
            i = n if j < 0 else j + 2
        elif c == '"':
            j = i + 1
            while j < n and src[j] != '"':
                j += 2 if src[j] == "\\" else 1
            out.append(src[i:j + 1])
            i = j + 1
        elif c == "b" and src.startswith("b'", i):
            j = i + 2
            while j < n and src[j] != "'":
                j += 2 if src[j] == "\\" else 1
            out.append(src[i:j + 1])
            i = j + 1
        else:
            out.append(c)
            i += 1
    return "".join(out)


def block_after(src, header_re, what):
    """return the text of the {...} block following the first match of header_re"""
    m = re.search(header_re, src)
    if not m:
        raise ExtractError(f"pattern not found: {what} ({header_re})")
    i = src.find("{", m.end() - 1)
    if i < 0:
        raise ExtractError(f"no block after: {what}")
    depth, j = 0, i
    while j < len(src):
        if src[j] == "{":
            depth += 1
        elif src[j] == "}":
            depth -= 1
            if depth == 0:
                return src[i + 1:j]
        j += 1
    raise ExtractError(f"unbalanced braces after: {what}")


def byte_lit(tok):
    tok = tok.strip()
    m = re.fullmatch(r"b'(\\?.)'", tok)
    if not m:
        raise ExtractError(f"not a byte literal: {tok}")
    s = m.group(1)
    if s.startswith("\\"):
        return {"n": 10, "t": 9, "r": 13, "0": 0, "\\": 92, "'": 39}[s[1]]
    return ord(s)


def lean_list(xs):
    return "[" + ", ".join(str(x) for x in xs) + "]"


def lean_pairs(ps):
    return "[" + ", ".join(f"({a}, {b})" for a, b in ps) + "]"


def load_generators():
    """every tools/gen/*.py exposing NAME and generate()"""
    import importlib.util
    gens = {}
    gdir = os.path.join(os.path.dirname(os.path.abspath(__file__)), "gen")
    for fn in sorted(os.listdir(gdir)):
        if fn.endswith(".py") and not fn.startswith("_"):
            spec = importlib.util.spec_from_file_location("gen_" + fn[:-3], os.path.join(gdir, fn))
            mod = importlib.util.module_from_spec(spec)
            spec.loader.exec_module(mod)
            gens[mod.NAME] = mod.generate
    return gens


def main():
    os.makedirs(OUT, exist_ok=True)
    status = {"ok": True, "modules": {}, "errors": []}
    for name, fn in load_generators().items():
        path = os.path.join(OUT, name + ".lean")
        try:
            text = fn()
        except Exception as e:  # ExtractError or any crash of a generator: a broken tie, never skipped
            status["ok"] = False
            status["errors"].append(f"Gen.{name}: {type(e).__name__}: {e}")
            continue
        old = open(path).read() if os.path.exists(path) else None
        if old != text:
            with open(path, "w") as f:
                f.write(text)
        status["modules"][name] = {"sha256": hashlib.sha256(text.encode()).hexdigest()[:16],
                                   "changed": old is not None and old != text}
    print(json.dumps(status))
    sys.exit(0 if status["ok"] else 3)


if __name__ == "__main__":
    sys.path.insert(0, os.path.dirname(os.path.abspath(__file__)))
    import extract  # noqa: F401  (so that generators importing `extract` see this module)
    main()
