#!/bin/sh
# tools/mkwork.sh <name> — scratch worktrees for parallel development of one property cluster:
#   /tmp/w/<name>/verif  (branch w-<name> of /verif)    /tmp/w/<name>/repo  (branch w-<name> of /repo)
set -e
n="$1"
mkdir -p /tmp/w/$n
git -C /verif worktree add -q -b w-$n /tmp/w/$n/verif HEAD
git -C /repo worktree add -q -b w-$n /tmp/w/$n/repo HEAD
cp /repo/Cargo.lock /tmp/w/$n/repo/Cargo.lock 2>/dev/null
echo "export LMV_REPO=/tmp/w/$n/repo; cd /tmp/w/$n/verif"
