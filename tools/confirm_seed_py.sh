#!/bin/bash
# tools/confirm_seed_py.sh <repo-worktree> <dir with patch.diff + demo.py> — confirm a seeded change of the
# Python bindings: demo.py exits 0 with the module built from the clean tree, non-zero with the patch; the
# workspace suite keeps its pass set (incl. the 22 Python unit tests).  Restores the worktree.
set -u
W="$1"; D="$2"
cd "$W" || exit 2
git checkout -q -- .
export CARGO_NET_OFFLINE=true RUST_BACKTRACE=0
PKG=$(mktemp -d /tmp/seedpy.XXXXXX)
build() { cargo build -q --offline -p lightmotif-py >/tmp/seedpy_build.log 2>&1 || return 1
  mkdir -p $PKG/lightmotif && cp lightmotif-py/lightmotif/*.py $PKG/lightmotif/ && cp target/debug/liblightmotif_py.so $PKG/lightmotif/lib.so; }
build || { echo build-failed-clean; exit 3; }
PYTHONPATH=$PKG python3 "$D/demo.py" >/tmp/seedpy_clean.log 2>&1; CLEAN=$?
git apply "$D/patch.diff" || { echo "patch-does-not-apply"; exit 3; }
build || { echo build-failed-patched; git checkout -q -- .; exit 3; }
PYTHONPATH=$PKG python3 "$D/demo.py" >/tmp/seedpy_patched.log 2>&1; PATCHED=$?
cargo test --workspace --no-fail-fast --offline > /tmp/seedpy_suite.log 2>&1
grep -E '^test .* (ok|FAILED)$' /tmp/seedpy_suite.log | sort > /tmp/seed_suite.set
PYT=$(grep -E '^Ran [0-9]+ tests' -A2 /tmp/seedpy_suite.log | tr '\n' ' ')
FAILS=$(grep -c FAILED /tmp/seed_suite.set); OKS=$(grep -c ' ok$' /tmp/seed_suite.set)
UNEXPECTED=$(grep FAILED /tmp/seed_suite.set | grep -v -E 'argmax_f32|scanner_max' | wc -l)
git checkout -q -- . ; rm -rf $PKG
echo "demo_clean_exit=$CLEAN demo_patched_exit=$PATCHED suite_ok=$OKS suite_failed=$FAILS unexpected_failures=$UNEXPECTED python_unittests='$PYT'"
