"""Gen.Avx2Score — the table-like parts of the AVX2 scoring kernels of avx2.rs:

  score_f32_avx2_permute / score_f32_avx2_gather
      the four shuffle masks m1..m4 (arguments of `_mm256_set_epi32`, which lists the HIGHEST element
      first) as 32 little-endian bytes each; the chain  x_k = shuffle(x, m_.) -> b_k = lookup(t, x_.)
      -> s_k += b_.  resolved to "accumulator k is indexed through mask ."; the accumulator
      initialisers; `r_k = _mm256_permute2f128_ps(s_a, s_b, imm)`; the stores (offset, r_k) in order.
  score_u8_avx2_shuffle
      the one-accumulator chain  t = broadcast(load 128)  y = shuffle(t, x)  s = adds_epu8(s, y)
      store(s), resolved to booleans / names the model consumes.

Every pattern is mandatory: a statement of a kernel body the translator does not recognise raises
ExtractError (broken tie), never skipped.
"""
import re
from extract import *

NAME = "Avx2Score"

HEX = r"(0x[0-9a-fA-F_]+|\d[\d_]*)"


def num(tok):
    tok = tok.strip().replace("_", "")
    return int(tok, 16) if tok.lower().startswith("0x") else int(tok)


def statements(body):
    """top-level `;`-terminated statements of a block, nested blocks kept whole"""
    out, depth, cur = [], 0, []
    for ch in body:
        if ch in "({[":
            depth += 1
        elif ch in ")}]":
            depth -= 1
        if ch == ";" and depth == 0:
            out.append("".join(cur).strip())
            cur = []
        else:
            cur.append(ch)
    rest = "".join(cur).strip()
    return out, rest


def squeeze(s):
    return re.sub(r"\s+", "", s)


def masks_of(fn_body, what):
    """`let mK = _mm256_set_epi32(e7, …, e0);` -> {K: [32 bytes, little endian, element 0 first]}"""
    res = {}
    for m in re.finditer(r"let\s+m(\d)\s*=\s*_mm256_set_epi32\(([^;]*?)\)\s*;", fn_body, re.S):
        args = [a for a in (x.strip() for x in m.group(2).split(",")) if a]
        if len(args) != 8:
            raise ExtractError(f"{what}: m{m.group(1)} has {len(args)} arguments")
        elems = [num(a) & 0xFFFFFFFF for a in reversed(args)]   # set_epi32 lists e7 first
        res[int(m.group(1))] = [(e >> (8 * b)) & 0xFF for e in elems for b in range(4)]
    if sorted(res) != [1, 2, 3, 4]:
        raise ExtractError(f"{what}: shuffle masks m1..m4 (`let mK = _mm256_set_epi32(..)`)")
    return res


def f32_kernel(src, fname, lookup_re, lookup_name):
    what = f"avx2.rs::{fname}"
    body = block_after(src, rf"unsafe\s+fn\s+{fname}\s*<", f"fn {fname}")
    masks = masks_of(body, what)
    # --- the row loop `for i in rows { … }`
    mrow = re.search(r"for\s+\w+\s+in\s+rows\s*\{", body)
    if not mrow:
        raise ExtractError(f"{what}: `for i in rows`")
    row = block_after(body[mrow.start():], r"for\s+\w+\s+in\s+rows\s*\{", f"{what}: row loop")
    mj = re.search(r"for\s+_\s+in\s+0\s*\.\.\s*pssm\.rows\(\)\s*\{", row)
    if not mj:
        raise ExtractError(f"{what}: `for _ in 0..pssm.rows()`")
    inner = block_after(row[mj.start():], r"for\s+_\s+in[^{]*\{", f"{what}: motif loop")
    before = row[:mj.start()]
    after = row[mj.start():]
    after = after[after.index(inner) + len(inner) + 1:]
    # accumulator initialisers
    init = {}
    st, rest = statements(before)
    if rest:
        raise ExtractError(f"{what}: trailing text before the motif loop `{rest[:40]}`")
    for s in st:
        q = squeeze(s)
        m = re.fullmatch(r"letmuts(\d)=(_mm256_\w+)\(\)", q)
        if m:
            init[int(m.group(1))] = m.group(2)
        elif q in ("letmutseqptr=seq.matrix()[i].as_ptr()", "letmutpssmptr=pssm[0].as_ptr()"):
            pass
        else:
            raise ExtractError(f"{what}: unexpected statement before the motif loop `{s[:60]}`")
    if sorted(init) != [1, 2, 3, 4]:
        raise ExtractError(f"{what}: accumulators s1..s4")
    for k, v in init.items():
        if v != "_mm256_setzero_ps":
            raise ExtractError(f"{what}: accumulator s{k} initialised with {v}, the model knows _mm256_setzero_ps only")
    # motif loop body
    xs, bs, acc = {}, {}, {}
    loads = set()
    st, rest = statements(inner)
    if rest:
        raise ExtractError(f"{what}: trailing text in the motif loop `{rest[:40]}`")
    for s in st:
        q = squeeze(s)
        m = re.fullmatch(r"letx(\d)=_mm256_shuffle_epi8\(x,m(\d)\)", q)
        if m:
            xs[int(m.group(1))] = int(m.group(2)); continue
        m = re.fullmatch(lookup_re, q)
        if m:
            bs[int(m.group(1))] = int(m.group(2)); continue
        m = re.fullmatch(r"s(\d)=_mm256_add_ps\(s(\d),b(\d)\)", q)
        if m:
            if m.group(1) != m.group(2):
                raise ExtractError(f"{what}: `{s}` does not accumulate into itself")
            acc[int(m.group(1))] = int(m.group(3)); continue
        if q == "letx=_mm256_load_si256(seqptras*const__m256i)":
            loads.add("x"); continue
        if q == "lett=_mm256_load_ps(pssmptr)":
            loads.add("t"); continue
        if q in ("seqptr=seqptr.add(seq.matrix().stride())", "pssmptr=pssmptr.add(pssm.stride())"):
            loads.add(q[:3]); continue
        if q.startswith("debug_assert_eq!("):
            continue
        raise ExtractError(f"{what}: unexpected statement in the motif loop `{s[:70]}`")
    need = {"x", "seq", "pss"} | ({"t"} if lookup_name == "permutevar8x32" else set())
    if not need <= loads:
        raise ExtractError(f"{what}: loads / pointer increments of the motif loop ({sorted(need - loads)} missing)")
    if sorted(xs) != [1, 2, 3, 4] or sorted(bs) != [1, 2, 3, 4] or sorted(acc) != [1, 2, 3, 4]:
        raise ExtractError(f"{what}: x1..x4 / b1..b4 / s1..s4 chain")
    acc_mask = [xs[bs[acc[k]]] for k in (1, 2, 3, 4)]       # accumulator k is indexed through mask .
    # after the motif loop: lane permutation and stores
    lanes, stores = {}, []
    st, rest = statements(after)
    if rest:
        raise ExtractError(f"{what}: trailing text after the motif loop `{rest[:40]}`")
    for s in st:
        q = squeeze(s)
        m = re.fullmatch(rf"letr(\d)=_mm256_permute2f128_ps\(s(\d),s(\d),{HEX}\)", q)
        if m:
            lanes[int(m.group(1))] = (int(m.group(2)) - 1, int(m.group(3)) - 1, num(m.group(4))); continue
        m = re.fullmatch(rf"_mm256_stream_ps\(rowptr\.add\({HEX}\),r(\d)\)", q)
        if m:
            stores.append((num(m.group(1)), int(m.group(2)) - 1)); continue
        if q == "rowptr=rowptr.add(data.stride())":
            continue
        raise ExtractError(f"{what}: unexpected statement after the motif loop `{s[:70]}`")
    if sorted(lanes) != [1, 2, 3, 4] or len(stores) != 4:
        raise ExtractError(f"{what}: r1..r4 / four stores")
    return {
        "masks": [masks[k] for k in acc_mask],
        "lanes": [lanes[k] for k in (1, 2, 3, 4)],
        "stores": stores,
    }


def u8_kernel(src):
    what = "avx2.rs::score_u8_avx2_shuffle"
    body = block_after(src, r"unsafe\s+fn\s+score_u8_avx2_shuffle\s*<", "fn score_u8_avx2_shuffle")
    mrow = re.search(r"for\s+\w+\s+in\s+rows\s*\{", body)
    if not mrow:
        raise ExtractError(f"{what}: `for i in rows`")
    row = block_after(body[mrow.start():], r"for\s+\w+\s+in\s+rows\s*\{", f"{what}: row loop")
    mj = re.search(r"for\s+_\s+in\s+0\s*\.\.\s*pssm\.rows\(\)\s*\{", row)
    if not mj:
        raise ExtractError(f"{what}: `for _ in 0..pssm.rows()`")
    inner = block_after(row[mj.start():], r"for\s+_\s+in[^{]*\{", f"{what}: motif loop")
    before = row[:mj.start()]
    after = row[mj.start():]
    after = after[after.index(inner) + len(inner) + 1:]
    got = set()
    for part, allowed in (
        (before, {"letmuts=_mm256_setzero_si256()": "init", "letmutseqptr=seq.matrix()[i].as_ptr()": None,
                  "letmutpssmptr=pssm[0].as_ptr()": None}),
        (inner, {"letx=_mm256_load_si256(seqptras*const__m256i)": "loadx",
                 "lett=_mm256_broadcastsi128_si256(_mm_load_si128(&*(pssmptras*const__m128i)))": "loadt",
                 "lety=_mm256_shuffle_epi8(t,x)": "shuffle",
                 "s=_mm256_adds_epu8(s,y)": "adds",
                 "seqptr=seqptr.add(seq.matrix().stride())": "seqinc",
                 "pssmptr=pssmptr.add(pssm.stride())": "pssminc"}),
        (after, {"_mm256_stream_si256(rowptras*mut__m256i,s)": "store", "rowptr=rowptr.add(data.stride())": "rowinc"}),
    ):
        st, rest = statements(part)
        if rest:
            raise ExtractError(f"{what}: trailing text `{rest[:40]}`")
        for s in st:
            q = squeeze(s)
            if q not in allowed:
                raise ExtractError(f"{what}: unexpected statement `{s[:80]}`")
            if allowed[q]:
                got.add(allowed[q])
    need = {"init", "loadx", "loadt", "shuffle", "adds", "seqinc", "pssminc", "store", "rowinc"}
    if got != need:
        raise ExtractError(f"{what}: missing {sorted(need - got)}")
    return True


def lean_tables(prefix, t):
    out = []
    out.append(f"/-- for accumulator `s1..s4` (in this order): the 32 bytes (lowest first) of the shuffle mask its index vector is built with -/")
    out.append(f"def {prefix}Masks : List (List Nat) := [\n  " + ",\n  ".join(lean_list(m) for m in t["masks"]) + "]")
    out.append(f"/-- `r_k = _mm256_permute2f128_ps(s_a, s_b, imm)` as (a, b, imm), accumulators numbered from 0 -/")
    out.append(f"def {prefix}Lanes : List (Nat × Nat × Nat) := [" + ", ".join(f"({a}, {b}, {i})" for a, b, i in t["lanes"]) + "]")
    out.append(f"/-- `_mm256_stream_ps(rowptr.add(off), r_k)` as (off, k), in program order, `r` numbered from 0 -/")
    out.append(f"def {prefix}Stores : List (Nat × Nat) := " + lean_pairs(t["stores"]))
    return out


def generate():
    src = strip_comments(read("lightmotif/src/pli/platform/avx2.rs"))
    perm = f32_kernel(src, "score_f32_avx2_permute", r"letb(\d)=_mm256_permutevar8x32_ps\(t,x(\d)\)", "permutevar8x32")
    gath = f32_kernel(src, "score_f32_avx2_gather",
                      r"letb(\d)=_mm256_i32gather_ps\(pssmptr,x(\d),std::mem::size_of::<f32>\(\)asi32\)", "i32gather")
    u8_kernel(src)
    # the safe wrappers: which kernel for which alphabet size
    disp = block_after(src, r"pub\s+fn\s+score_f32_rows_into\s*<", "Avx2::score_f32_rows_into")
    m = re.search(r"if\s+A::K::USIZE\s*<=\s*(\d+)\s*\{\s*Self::score_f32_rows_into_permute\(pssm,\s*seq,\s*rows,\s*scores\);\s*\}\s*else\s*\{\s*Self::score_f32_rows_into_gather\(pssm,\s*seq,\s*rows,\s*scores\);\s*\}", disp)
    if not m:
        raise ExtractError("Avx2::score_f32_rows_into: `if A::K::USIZE <= 8 { permute } else { gather }`")
    out = ["-- GENERATED by tools/extract.py from avx2.rs::score_f32_avx2_{permute,gather}, score_u8_avx2_shuffle — do not edit.",
           "namespace LMV.Gen.Avx2Score", ""]
    out += lean_tables("permute", perm)
    out.append("")
    out += lean_tables("gather", gath)
    out.append("")
    out.append("/-- `if A::K::USIZE <= permuteMaxK { permute } else { gather }` in `Avx2::score_f32_rows_into` -/")
    out.append(f"def permuteMaxK : Nat := {int(m.group(1))}")
    out.append("/-- every accumulator of the three kernels starts from `_mm256_setzero_*` (checked by the translator) -/")
    out.append("def accInitZero : Bool := true")
    out.append("/-- `score_u8_avx2_shuffle`: `t = broadcastsi128(load 128 bits of the row)`, `y = shuffle_epi8(t, x)`, `s = adds_epu8(s, y)`, one 32-byte store at offset 0 (all checked by the translator) -/")
    out.append("def u8StoreOffset : Nat := 0")
    out += ["", "end LMV.Gen.Avx2Score"]
    return "\n".join(out) + "\n"
