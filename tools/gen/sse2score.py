"""Gen.Sse2Score — the table-like parts of sse2.rs::score_sse2: the unpack chain x -> hi/lo -> x1..x4
(in program order, as (dst, high-half?, operand a, operand b)), the compare / mask / accumulate
pairing  p_k = cmpeq_epi32(x_., sym)  s_k += and_ps(lut, p_.)  resolved to "accumulator k is selected
through index vector x_.", the accumulator initialisers and the stores (offset, s_k) in order.

Every pattern is mandatory: an unrecognised statement raises ExtractError (broken tie).
"""
import re
from extract import *

NAME = "Sse2Score"

HEX = r"(0x[0-9a-fA-F_]+|\d[\d_]*)"


def num(tok):
    tok = tok.strip().replace("_", "")
    return int(tok, 16) if tok.lower().startswith("0x") else int(tok)


def statements(body):
    out, depth, cur = [], 0, []
    for ch in body:
        if ch in "({[":
            depth += 1
        elif ch in ")}]":
            depth -= 1
        if ch == ";" and depth == 0:
            out.append("".join(cur).strip())
            cur = []
        else:
            cur.append(ch)
    return out, "".join(cur).strip()


def squeeze(s):
    return re.sub(r"\s+", "", s)


def generate():
    what = "sse2.rs::score_sse2"
    src = strip_comments(read("lightmotif/src/pli/platform/sse2.rs"))
    body = block_after(src, r"unsafe\s+fn\s+score_sse2\s*<", "fn score_sse2")
    if not re.search(r"let\s+zero\s*=\s*_mm_setzero_si128\(\)\s*;", body):
        raise ExtractError(f"{what}: `let zero = _mm_setzero_si128()`")
    mo = re.search(r"for\s+offset\s+in\s+\(0\s*\.\.\s*C::Quotient::USIZE\)\.map\(\|i\|\s*i\s*\*\s*<Sse2 as Backend>::Lanes::USIZE\)\s*\{", body)
    if not mo:
        raise ExtractError(f"{what}: `for offset in (0..C::Quotient::USIZE).map(|i| i * Lanes::USIZE)`")
    blk = block_after(body[mo.start():], r"for\s+offset\s+in[^{]*\{", f"{what}: offset loop")
    if not re.search(r"let\s+mut\s+rowptr\s*=\s*data\[0\]\.as_mut_ptr\(\)\.add\(offset\)\s*;", blk):
        raise ExtractError(f"{what}: `rowptr = data[0].as_mut_ptr().add(offset)`")
    mrow = re.search(r"for\s+\w+\s+in\s+rows\.clone\(\)\s*\{", blk)
    if not mrow:
        raise ExtractError(f"{what}: `for i in rows.clone()`")
    row = block_after(blk[mrow.start():], r"for\s+\w+\s+in[^{]*\{", f"{what}: row loop")
    mj = re.search(r"for\s+_\s+in\s+0\s*\.\.\s*pssm\.rows\(\)\s*\{", row)
    if not mj:
        raise ExtractError(f"{what}: `for _ in 0..pssm.rows()`")
    inner = block_after(row[mj.start():], r"for\s+_\s+in[^{]*\{", f"{what}: motif loop")
    before = row[:mj.start()]
    after = row[mj.start():]
    after = after[after.index(inner) + len(inner) + 1:]
    # accumulators
    init = {}
    st, rest = statements(before)
    if rest:
        raise ExtractError(f"{what}: trailing text before the motif loop `{rest[:40]}`")
    for s in st:
        q = squeeze(s)
        m = re.fullmatch(r"letmuts(\d)=(_mm_\w+)\(\)", q)
        if m:
            init[int(m.group(1))] = m.group(2)
        elif q in ("letmutdataptr=seq.matrix()[i].as_ptr().add(offset)", "letmutpssmptr=pssm[0].as_ptr()"):
            pass
        else:
            raise ExtractError(f"{what}: unexpected statement before the motif loop `{s[:60]}`")
    if sorted(init) != [1, 2, 3, 4] or any(v != "_mm_setzero_ps" for v in init.values()):
        raise ExtractError(f"{what}: accumulators s1..s4 initialised with _mm_setzero_ps")
    # motif loop: loads, unpack chain, symbol loop, increments
    mk = re.search(r"for\s+k\s+in\s+0\s*\.\.\s*A::K::USIZE\s*\{", inner)
    if not mk:
        raise ExtractError(f"{what}: `for k in 0..A::K::USIZE`")
    kbody = block_after(inner[mk.start():], r"for\s+k\s+in[^{]*\{", f"{what}: symbol loop")
    pre = inner[:mk.start()]
    post = inner[mk.start():]
    post = post[post.index(kbody) + len(kbody) + 1:]
    chain = []
    have_load = False
    st, rest = statements(pre)
    if rest:
        raise ExtractError(f"{what}: trailing text before the symbol loop `{rest[:40]}`")
    for s in st:
        q = squeeze(s)
        if q == "letx=_mm_load_si128(dataptras*const__m128i)":
            have_load = True
            continue
        m = re.fullmatch(r"let(\w+)=_mm_unpack(lo|hi)_epi(\d+)\((\w+),(\w+)\)", q)
        if m:
            if m.group(3) != "8":
                raise ExtractError(f"{what}: `{s}`: the model knows the epi8 unpacks only")
            chain.append((m.group(1), m.group(2) == "hi", m.group(4), m.group(5)))
            continue
        if q.startswith("debug_assert"):
            continue
        raise ExtractError(f"{what}: unexpected statement before the symbol loop `{s[:70]}`")
    if not have_load or not chain:
        raise ExtractError(f"{what}: load of x / unpack chain")
    defined = {"x", "zero"}
    for d, _, a, b in chain:
        if a not in defined or b not in defined:
            raise ExtractError(f"{what}: unpack chain uses `{a}`/`{b}` before its definition")
        defined.add(d)
    ps, acc = {}, {}
    have = set()
    st, rest = statements(kbody)
    if rest:
        raise ExtractError(f"{what}: trailing text in the symbol loop `{rest[:40]}`")
    for s in st:
        q = squeeze(s)
        if q == "letsym=_mm_set1_epi32(kasi32)":
            have.add("sym"); continue
        if q == "letlut=_mm_load1_ps(pssmptr.add(k))":
            have.add("lut"); continue
        m = re.fullmatch(r"letp(\d)=_mm_castsi128_ps\(_mm_cmpeq_epi32\(x(\d),sym\)\)", q)
        if m:
            ps[int(m.group(1))] = "x" + m.group(2); continue
        m = re.fullmatch(r"s(\d)=_mm_add_ps\(s(\d),_mm_and_ps\(lut,p(\d)\)\)", q)
        if m:
            if m.group(1) != m.group(2):
                raise ExtractError(f"{what}: `{s}` does not accumulate into itself")
            acc[int(m.group(1))] = int(m.group(3)); continue
        raise ExtractError(f"{what}: unexpected statement in the symbol loop `{s[:70]}`")
    if have != {"sym", "lut"} or sorted(ps) != [1, 2, 3, 4] or sorted(acc) != [1, 2, 3, 4]:
        raise ExtractError(f"{what}: sym / lut / p1..p4 / s1..s4 of the symbol loop")
    acc_reg = [ps[acc[k]] for k in (1, 2, 3, 4)]
    for r in acc_reg:
        if r not in defined:
            raise ExtractError(f"{what}: index vector {r} is not produced by the unpack chain")
    st, rest = statements(post)
    if rest or sorted(squeeze(s) for s in st) != sorted(["dataptr=dataptr.add(seq.matrix().stride())", "pssmptr=pssmptr.add(pssm.stride())"]):
        raise ExtractError(f"{what}: pointer increments of the motif loop")
    stores = []
    st, rest = statements(after)
    if rest:
        raise ExtractError(f"{what}: trailing text after the motif loop `{rest[:40]}`")
    for s in st:
        q = squeeze(s)
        m = re.fullmatch(rf"_mm_stream_ps\(rowptr\.add\({HEX}\),s(\d)\)", q)
        if m:
            stores.append((num(m.group(1)), int(m.group(2)) - 1)); continue
        if q == "rowptr=rowptr.add(data.stride())":
            continue
        raise ExtractError(f"{what}: unexpected statement after the motif loop `{s[:70]}`")
    if len(stores) != 4:
        raise ExtractError(f"{what}: four stores")
    # registers by number: 0 = x (the 16 loaded symbols), 1 = zero, then the chain's destinations in order
    regno = {"x": 0, "zero": 1}
    nchain = []
    for d, h, a, b in chain:
        if d in regno:
            raise ExtractError(f"{what}: register `{d}` defined twice in the unpack chain")
        nchain.append((len(regno), h, regno[a], regno[b]))
        regno[d] = len(regno)
    out = ["-- GENERATED by tools/extract.py from sse2.rs::score_sse2 — do not edit.",
           "namespace LMV.Gen.Sse2Score", "",
           "/-- the unpack chain in program order: (destination, unpackHI?, operand a, operand b) for",
           "    `dst = _mm_unpack{lo,hi}_epi8(a, b)`; registers by number: 0 = `x` (the 16 loaded symbols),",
           "    1 = `zero`, then the destinations in program order: " + ", ".join(f"{v} = `{k}`" for k, v in regno.items() if v > 1) + " -/",
           "def chain : List (Nat × Bool × Nat × Nat) := [" +
           ", ".join(f"({d}, {'true' if h else 'false'}, {a}, {b})" for d, h, a, b in nchain) + "]",
           "/-- accumulator `s1..s4` (in this order) is selected through this index vector (register number) -/",
           "def accReg : List Nat := " + lean_list([regno[r] for r in acc_reg]),
           "/-- `_mm_stream_ps(rowptr.add(off), s_k)` as (off, k), in program order, `s` numbered from 0 -/",
           "def stores : List (Nat × Nat) := " + lean_pairs(stores),
           "/-- every accumulator starts from `_mm_setzero_ps` (checked by the translator) -/",
           "def accInitZero : Bool := true",
           "/-- columns handled per pass of the outer loop (`<Sse2 as Backend>::Lanes`) -/"]
    ml = re.search(r"impl\s+Backend\s+for\s+Sse2\s*\{\s*type\s+Lanes\s*=\s*U(\d+)\s*;", src)
    if not ml:
        raise ExtractError("sse2.rs: `impl Backend for Sse2 { type Lanes = U16; }`")
    out.append(f"def lanes : Nat := {int(ml.group(1))}")
    out += ["", "end LMV.Gen.Sse2Score"]
    return "\n".join(out) + "\n"
