#!/bin/bash
# tools/confirm_seed.sh <repo-worktree> <dir with patch.diff + demo.rs> — confirm a seeded change:
# demo passes on the clean tree, fails with the patch; the workspace suite keeps its pass set
# (only the 4 argmax tests that fail at the pinned commit fail).  Restores the worktree.
set -u
W="$1"; D="$2"
cd "$W" || exit 2
git checkout -q -- . ; rm -f lightmotif/tests/seed_demo.rs
cp "$D/demo.rs" lightmotif/tests/seed_demo.rs
export CARGO_NET_OFFLINE=true RUST_BACKTRACE=0
cargo test -q -p lightmotif --test seed_demo --offline >/tmp/seed_clean.log 2>&1; CLEAN=$?
git apply "$D/patch.diff" || { echo "patch-does-not-apply"; exit 3; }
cargo test -q -p lightmotif --test seed_demo --offline >/tmp/seed_patched.log 2>&1; PATCHED=$?
rm -f lightmotif/tests/seed_demo.rs
cargo test --workspace --no-fail-fast --offline 2>&1 | grep -E '^test .* (ok|FAILED)$' | sort > /tmp/seed_suite.set
FAILS=$(grep -c FAILED /tmp/seed_suite.set)
OKS=$(grep -c ' ok$' /tmp/seed_suite.set)
UNEXPECTED=$(grep FAILED /tmp/seed_suite.set | grep -v -E 'argmax_f32|scanner_max' | wc -l)
git checkout -q -- . ; git clean -fdq lightmotif/tests
echo "demo_clean_exit=$CLEAN demo_patched_exit=$PATCHED suite_ok=$OKS suite_failed=$FAILS unexpected_failures=$UNEXPECTED"
