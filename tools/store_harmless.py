#!/usr/bin/env python3
"""tools/store_harmless.py <out dir of a harmless-change agent> <tag> — store behaviour-preserving changes
(h<i>.diff + h<i>.md) as harmless/<tag>-h<i>/{patch.diff, notes.md, meta.json}; `checks` = every property
whose mirrored files (tools/props/*.json `files`) the patch touches.  Run with tools/run_seeded.py /
tools/par_seeded.py: for these, `caught` means a FALSE ALARM."""
import glob, json, os, re, shutil, sys
HERE = os.path.dirname(os.path.abspath(__file__))
ROOT = os.path.dirname(HERE)
sys.path.insert(0, HERE)
from props import PROPS
out, tag = sys.argv[1], sys.argv[2]
for diff in sorted(glob.glob(os.path.join(out, "h*.diff"))):
    k = os.path.basename(diff)[:-5]
    patch = open(diff).read()
    files = sorted(set(re.findall(r"^\+\+\+ b/(\S+)", patch, re.M)))
    checks = sorted(p for p, c in PROPS.items() if set(c.get("files", [])) & set(files))
    d = os.path.join(ROOT, "harmless", f"{tag}-{k}")
    os.makedirs(d, exist_ok=True)
    shutil.copy(diff, os.path.join(d, "patch.diff"))
    md = diff[:-5] + ".md"
    notes = open(md).read() if os.path.exists(md) else ""
    open(os.path.join(d, "notes.md"), "w").write(notes)
    json.dump({"id": f"{tag}-{k}", "property": checks[0] if checks else "-", "harmless": True,
               "source": "independent sub-agent asked for behaviour-preserving maintenance changes",
               "needs_to_manifest": notes[:1500], "files": files, "checks": checks},
              open(os.path.join(d, "meta.json"), "w"), indent=1)
    print(f"{tag}-{k}: {files} -> {checks}")
