#!/bin/bash
# tools/store_seed.sh <src worktree> <k> <id> <property> [<extra check ids…>] — copy a confirmed seeded change into seeded/<id>/
src=$1; k=$2; id=$3; prop=$4; shift 4; extra="$*"
d=/verif/seeded/$id; mkdir -p $d; cp $src/out/$k/patch.diff $src/out/$k/demo.rs $src/out/$k/notes.txt $d/
python3 - "$id" "$prop" "$d" $extra <<'PY'
import json,sys
i,p,d=sys.argv[1:4]; extra=sys.argv[4:]
notes=open(d+'/notes.txt').read()
json.dump({"id":i,"property":p,"source":"independent sub-agent given only the property text and a scratch worktree of /repo",
 "needs_to_manifest":notes[:1500],
 "confirmed":"tools/confirm_seed.sh in a scratch worktree: demo passes on the clean tree (exit 0), fails with the patch (exit 101); cargo test --workspace --no-fail-fast --offline keeps its pass set (94 ok, only the 4 argmax tests that fail at the pinned commit fail)",
 "checks":[p]+extra}, open(d+'/meta.json','w'), indent=1)
PY
