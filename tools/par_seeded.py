#!/usr/bin/env python3
"""tools/par_seeded.py -j <lanes> [<seeded-dir>…] — run seeded changes in parallel WITHOUT touching /repo.

Each lane is a pair of scratch worktrees (tools/mkwork.sh: /tmp/w/par<i>/{verif,repo}, the COMMITTED
state of /verif and /repo) with its own build directory; a seeded change is applied to the lane's
copy of the repository (LMV_REPO), the quick check(s) run from the lane's copy of /verif, and the
outcome is written to /verif/seeded/<id>/meta.json.  Lanes are removed afterwards.  Evidence files
of /verif are never touched (the lanes write their own)."""
import glob, os, queue, subprocess, sys, threading
ROOT = os.path.dirname(os.path.dirname(os.path.abspath(__file__)))


def sh(cmd, **kw):
    return subprocess.run(cmd, stdout=subprocess.PIPE, stderr=subprocess.STDOUT, text=True, **kw)


def main():
    args = sys.argv[1:]
    lanes = 4
    if args[:1] == ["-j"]:
        lanes = int(args[1]); args = args[2:]
    dirs = [os.path.abspath(d) for d in (args or sorted(glob.glob(os.path.join(ROOT, "seeded", "*"))))]
    lanes = max(1, min(lanes, len(dirs)))
    names = [f"p{os.getpid()}x{i}" for i in range(lanes)]
    q = queue.Queue()
    for d in dirs:
        q.put(d)
    lock = threading.Lock()

    def lane(n):
        base = f"/tmp/w/{n}"
        env = dict(os.environ, LMV_REPO=f"{base}/repo", CARGO_NET_OFFLINE="true")
        r = sh([os.path.join(ROOT, "tools", "mkwork.sh"), n])
        if r.returncode != 0:
            print(f"[{n}] mkwork failed: {r.stdout[-300:]}"); return
        try:
            r = sh(["./setup.sh"], cwd=f"{base}/verif", env=env)
            if r.returncode != 0:
                print(f"[{n}] setup failed: {r.stdout[-600:]}"); return
            while True:
                try:
                    d = q.get_nowait()
                except queue.Empty:
                    break
                r = sh(["python3", f"{base}/verif/tools/run_seeded.py", d], cwd=f"{base}/verif", env=env)
                with lock:
                    print(f"[{n}] {r.stdout.strip().splitlines()[-1] if r.stdout.strip() else '?'}", flush=True)
        finally:
            sh(["git", "-C", ROOT, "worktree", "remove", "--force", f"{base}/verif"])
            sh(["git", "-C", ROOT, "branch", "-D", f"w-{n}"])
            sh(["git", "-C", "/repo", "worktree", "remove", "--force", f"{base}/repo"])
            sh(["git", "-C", "/repo", "branch", "-D", f"w-{n}"])
            sh(["rm", "-rf", base])

    ts = [threading.Thread(target=lane, args=(n,)) for n in names]
    for t in ts:
        t.start()
    for t in ts:
        t.join()
    return 0


if __name__ == "__main__":
    sys.exit(main())
