#!/usr/bin/env python3
"""print the markdown table of seeded changes and which check caught them (from seeded/*/meta.json)"""
import json, glob, re, os
ROOT = os.path.dirname(os.path.dirname(os.path.abspath(__file__)))
rows = []
for f in sorted(glob.glob(os.path.join(ROOT, 'seeded/*/meta.json'))):
    m = json.load(open(f)); lr = m.get('last_run', {})
    patch = open(f.replace('meta.json', 'patch.diff')).read()
    files = sorted(set(re.findall(r'^\+\+\+ b/(\S+)', patch, re.M)))
    how = []
    for pid, r in lr.get('results', {}).items():
        if r['exit'] == 1:
            v = r.get('violation_lines') or ['']
            kind = 'replay = concrete failing input' if 'no-failing-input-found' not in v[0] else 'no-failing-input-found'
            br = r.get('broken'); first = ''
            if br:
                b0 = br[0] if isinstance(br, list) else str(br)
                first = ' (+ ' + b0.split(':')[0] + ' broken)'
            how.append(f"{pid}: {kind}{first}")
    first_line = [l for l in m['needs_to_manifest'].splitlines() if l.strip()][:1]
    rows.append((m['id'], ', '.join('/'.join(x.split('/')[-2:]) for x in files),
                 'caught' if lr.get('caught') else 'MISSED', '; '.join(how)))
print('| seeded change | file(s) | result | which check, what it reported |\n|---|---|---|---|')
for r in rows:
    print('| ' + ' | '.join(r) + ' |')
