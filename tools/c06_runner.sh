#!/bin/sh
# tools/c06_runner.sh — implementation side of C06: the harness crate built with AddressSanitizer.
#
# Called by `check` instead of lmv-harness with the same command line plus `--profile P`:
#   c06_runner.sh c06 --tier T --seed N --out DIR --boost K [--replay F] --profile P
# Builds harness/ (path deps on $LMV_REPO, feature verif-hooks) with nightly + `-Zsanitizer=address`
# into .build/asan-target (offline), then runs the `c06` stream with
# ASAN_OPTIONS=detect_leaks=0:abort_on_error=1.  A sanitizer report aborts the process: the exit
# status is passed on, `check` names the announced case that has no answer; the head of the report
# (kind of error, access size, top frames, SUMMARY) is printed last so that it lands in the replay.
# With C06_VALGRIND=1 (thorough tier only) the same stream is run a second time, uninstrumented,
# under valgrind memcheck.
set -u
ROOT=$(cd "$(dirname "$0")/.." && pwd)
REPO=${LMV_REPO:-/repo}
TARGET="$ROOT/.build/asan-target"
TRIPLE=x86_64-unknown-linux-gnu
mkdir -p "$ROOT/.build"

# strip `--profile P` (the sanitizer build is always the release profile), remember --out / --tier
OUT=.
TIER=quick
ARGS=""
while [ $# -gt 0 ]; do
  case "$1" in
    --profile) shift 2; continue ;;
    --out) OUT="$2" ;;
    --tier) TIER="$2" ;;
  esac
  ARGS="$ARGS $1"
  shift
done

(
  flock 9
  python3 "$ROOT/tools/gen_glue.py" || exit 3
  if ! cmp -s "$REPO/Cargo.lock" "$ROOT/harness/Cargo.lock"; then cp "$REPO/Cargo.lock" "$ROOT/harness/Cargo.lock" || exit 3; fi
  cd "$ROOT/harness" || exit 3
  build() {
    RUSTFLAGS="-Zsanitizer=address" CARGO_TARGET_DIR="$TARGET" CARGO_NET_OFFLINE=true \
      CARGO_PROFILE_RELEASE_DEBUG=line-tables-only \
      cargo +nightly build --offline --release --target $TRIPLE > "$ROOT/.build/asan-build.log" 2>&1
  }
  build || build || { echo "c06_runner: AddressSanitizer build failed:"; tail -n 40 "$ROOT/.build/asan-build.log"; exit 3; }
) 9> "$ROOT/.build/asan.lock" || exit 3

EXE="$TARGET/$TRIPLE/release/lmv-harness"
mkdir -p "$OUT"
# shellcheck disable=SC2086
ASAN_OPTIONS=detect_leaks=0:abort_on_error=1:symbolize=1 RUST_BACKTRACE=0 "$EXE" $ARGS 2> "$OUT/asan.log"
RC=$?
if [ $RC -ne 0 ]; then
  echo "c06_runner: sanitizer build of the harness exited with status $RC"
  grep -E "ERROR: AddressSanitizer|^(READ|WRITE) of size|^ +#[0-3] |is located|SUMMARY: AddressSanitizer" "$OUT/asan.log" | head -n 12 | cut -c 1-220
  # last line (the tail of the output is what `check` quotes in the replay): kind, access, first frame
  # inside the library
  KIND=$(grep -E "ERROR: AddressSanitizer" "$OUT/asan.log" | head -n 1 | sed -E 's/.*AddressSanitizer: ([a-z-]+).*/\1/')
  ACC=$(grep -E "^(READ|WRITE) of size" "$OUT/asan.log" | head -n 1 | cut -d' ' -f1-4)
  FRAME=$(grep -E "^ +#[0-9]+ .*lightmotif/src/" "$OUT/asan.log" | head -n 1 | sed -E 's/^ +#[0-9]+ 0x[0-9a-f]+ in //' | cut -c 1-160)
  echo "AddressSanitizer: $KIND: $ACC in $FRAME"
  exit $RC
fi

if [ "${C06_VALGRIND:-0}" = "1" ] && [ "$TIER" = "thorough" ] && command -v valgrind > /dev/null; then
  # second observer: the uninstrumented harness (built by a plain check run) under memcheck, on the
  # corpus-sized quick stream (memcheck is ~30x slower)
  PLAIN="$ROOT/.build/harness-target/release/lmv-harness"
  if [ -x "$PLAIN" ]; then
    VOUT="$OUT-valgrind"
    valgrind -q --error-exitcode=97 --undef-value-errors=no "$PLAIN" c06 --tier quick --seed 1 --out "$VOUT" --boost 1 > "$OUT/valgrind.log" 2>&1
    VRC=$?
    if [ $VRC -ne 0 ]; then
      echo "c06_runner: valgrind reported errors (status $VRC)"
      head -n 30 "$OUT/valgrind.log"
      cp "$VOUT/cases.txt" "$OUT/cases.txt" 2> /dev/null
      cp "$VOUT/impl.txt" "$OUT/impl.txt" 2> /dev/null
      cp "$VOUT/oracle.txt" "$OUT/oracle.txt" 2> /dev/null
      exit $VRC
    fi
  fi
fi
exit 0
