#!/bin/sh
# tools/c06_runner.sh — implementation side of C06: the harness crate built with AddressSanitizer.
#
# Called by `check` instead of lmv-harness with the same command line plus `--profile P`:
#   c06_runner.sh c06 --tier T --seed N --out DIR --boost K [--replay F] --profile P
# Builds harness/ (path deps on $LMV_REPO, feature verif-hooks) with nightly + `-Zsanitizer=address`
# into .build/asan-target (offline), then runs the `c06` stream with
# ASAN_OPTIONS=detect_leaks=0:abort_on_error=1.  A sanitizer report aborts the process: the exit
# status is passed on, `check` names the announced case that has no answer; the head of the report
# (kind of error, access size, top frames, SUMMARY) is printed last so that it lands in the replay.
# In the thorough tier the quick-sized stream is run a second time by the UNINSTRUMENTED harness under
# valgrind memcheck (C06_VALGRIND=0 skips it).
set -u
ROOT=$(cd "$(dirname "$0")/.." && pwd)
REPO=${LMV_REPO:-/repo}
TARGET="$ROOT/.build/asan-target"
TRIPLE=x86_64-unknown-linux-gnu
mkdir -p "$ROOT/.build"

# strip `--profile P` (the sanitizer build is always the release profile), remember --out / --tier
OUT=.
TIER=quick
ARGS=""
while [ $# -gt 0 ]; do
  case "$1" in
    --profile) shift 2; continue ;;
    --out) OUT="$2" ;;
    --tier) TIER="$2" ;;
  esac
  ARGS="$ARGS $1"
  shift
done

(
  flock 9
  python3 "$ROOT/tools/gen_glue.py" || exit 3
  if ! cmp -s "$REPO/Cargo.lock" "$ROOT/harness/Cargo.lock"; then cp "$REPO/Cargo.lock" "$ROOT/harness/Cargo.lock" || exit 3; fi
  cd "$ROOT/harness" || exit 3
  build() {
    RUSTFLAGS="-Zsanitizer=address" CARGO_TARGET_DIR="$TARGET" CARGO_NET_OFFLINE=true \
      CARGO_PROFILE_RELEASE_DEBUG=line-tables-only \
      cargo +nightly build --offline --release --target $TRIPLE > "$ROOT/.build/asan-build.log" 2>&1
  }
  build || build || { echo "c06_runner: AddressSanitizer build failed:"; tail -n 40 "$ROOT/.build/asan-build.log"; exit 3; }
) 9> "$ROOT/.build/asan.lock" || exit 3

EXE="$TARGET/$TRIPLE/release/lmv-harness"
mkdir -p "$OUT"
# shellcheck disable=SC2086
ASAN_OPTIONS=detect_leaks=0:abort_on_error=1:symbolize=1 RUST_BACKTRACE=0 "$EXE" $ARGS 2> "$OUT/asan.log"
RC=$?
if [ $RC -ne 0 ]; then
  echo "c06_runner: sanitizer build of the harness exited with status $RC"
  grep -E "ERROR: AddressSanitizer|^(READ|WRITE) of size|^ +#[0-3] |is located|SUMMARY: AddressSanitizer" "$OUT/asan.log" | head -n 12 | cut -c 1-220
  # last line (the tail of the output is what `check` quotes in the replay): kind, access, first frame
  # inside the library
  KIND=$(grep -E "ERROR: AddressSanitizer" "$OUT/asan.log" | head -n 1 | sed -E 's/.*AddressSanitizer: ([a-z-]+).*/\1/')
  ACC=$(grep -E "^(READ|WRITE) of size" "$OUT/asan.log" | head -n 1 | cut -d' ' -f1-4)
  FRAME=$(grep -E "^ +#[0-9]+ .*lightmotif/src/" "$OUT/asan.log" | head -n 1 | sed -E 's/^ +#[0-9]+ 0x[0-9a-f]+ in //' | cut -c 1-160)
  echo "AddressSanitizer: $KIND: $ACC in $FRAME"
  exit $RC
fi

if [ "${C06_VALGRIND:-1}" = "1" ] && [ "$TIER" = "thorough" ] && command -v valgrind > /dev/null; then
  # second observer (thorough tier; C06_VALGRIND=0 skips it): the UNINSTRUMENTED harness under valgrind
  # memcheck on the quick-sized stream of the same seed (memcheck is ~50x slower).  The process is
  # stopped at the first error so that the announced case without an answer names the input.
  PLAIN_TARGET="$ROOT/.build/c06-plain-target"
  (
    flock 9
    cd "$ROOT/harness" || exit 3
    CARGO_TARGET_DIR="$PLAIN_TARGET" CARGO_NET_OFFLINE=true cargo build --offline --release > "$ROOT/.build/c06-plain-build.log" 2>&1 \
      || { echo "c06_runner: plain build for valgrind failed:"; tail -n 30 "$ROOT/.build/c06-plain-build.log"; exit 3; }
  ) 9> "$ROOT/.build/asan.lock" || exit 3
  VOUT="$OUT/valgrind"
  VARGS=$(echo "$ARGS" | sed -E 's/--tier +thorough/--tier quick/; s#--out +[^ ]+#--out '"$VOUT"'#')
  # shellcheck disable=SC2086
  RUST_BACKTRACE=0 valgrind -q --error-exitcode=97 --exit-on-first-error=yes --undef-value-errors=no \
    "$PLAIN_TARGET/release/lmv-harness" $VARGS > "$OUT/valgrind.log" 2>&1
  VRC=$?
  if [ $VRC -ne 0 ]; then
    echo "c06_runner: valgrind memcheck of the uninstrumented harness exited with status $VRC"
    cp "$VOUT/cases.txt" "$VOUT/impl.txt" "$VOUT/oracle.txt" "$OUT/" 2> /dev/null
    grep -E "Invalid (read|write)|Address 0x|  (at|by) 0x" "$OUT/valgrind.log" | head -n 8 | cut -c 1-200
    echo "valgrind: $(grep -E 'Invalid (read|write)' "$OUT/valgrind.log" | head -n 1 | sed -E 's/^==[0-9]+== //') in $(grep -E ' at 0x' "$OUT/valgrind.log" | head -n 1 | sed -E 's/^==[0-9]+== +at 0x[0-9A-F]+: //' | cut -c 1-160)"
    exit $VRC
  fi
fi
exit 0
