#!/bin/bash
# tools/ingest_seeds.sh <seed worktree> <tag> — confirm every out/<k> of a seeding worktree with
# tools/confirm_seed.sh and store the confirmed ones as seeded/<property>-<tag><k>/
W="$1"; TAG="$2"
for D in "$W"/out/*/; do
  k=$(basename "$D"); [ -f "$D/patch.diff" ] || continue
  prop=$(head -n 3 "$D/notes.txt" | grep -oE 'C[0-9]{2}' | head -n 1)
  if grep -q '^+++ b/lightmotif-io/' "$D/patch.diff"; then cr=lightmotif-io
  elif grep -q '^+++ b/lightmotif-tfmpvalue/' "$D/patch.diff"; then cr=lightmotif-tfmpvalue
  else cr=lightmotif; fi
  grep -qi "lightmotif-io/tests" "$D/notes.txt" && cr=lightmotif-io
  grep -qi "lightmotif-tfmpvalue/tests" "$D/notes.txt" && cr=lightmotif-tfmpvalue
  res=$(/verif/tools/confirm_seed.sh "$W" "$D" $cr)
  echo "$TAG$k ($prop, $cr): $res"
  if echo "$res" | grep -q "demo_clean_exit=0 demo_patched_exit=101 .* unexpected_failures=0"; then
    /verif/tools/store_seed.sh "$W" "$k" "$prop-$TAG$k" "$prop"
  else
    echo "  NOT CONFIRMED — not stored"
  fi
done
