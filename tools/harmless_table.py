#!/usr/bin/env python3
"""print the markdown table of behaviour-preserving changes and what the checks said (harmless/*/meta.json)"""
import json, glob, os, re
ROOT = os.path.dirname(os.path.dirname(os.path.abspath(__file__)))
print('| change | file(s) | checks run | outcome |\n|---|---|---|---|')
for f in sorted(glob.glob(os.path.join(ROOT, 'harmless/*/meta.json'))):
    m = json.load(open(f)); lr = m.get('last_run')
    files = ', '.join('/'.join(x.split('/')[-2:]) for x in m.get('files', []))
    if not lr or not lr.get('applied'):
        out = 'not run' if not lr else 'patch does not apply'
    else:
        al = []
        for pid, r in lr['results'].items():
            if r['exit'] != 0:
                v = (r.get('violation_lines') or [''])[0]
                b = r.get('broken'); b0 = (b[0] if isinstance(b, list) and b else str(b or ''))
                mm = re.search(r'Gen\.(\w+)', b0)
                why = f'translator Gen.{mm.group(1)} cannot read the rewritten code' if mm else (b0[:60] or 'failing input')
                al.append(f"{pid}: {'`no-failing-input-found`' if 'no-failing-input-found' in v else 'ALARM with input'} ({why})")
        out = 'quiet (all exit 0)' if not al else '; '.join(al)
    print(f"| {m['id']} | {files} | {' '.join(m.get('checks', []))} | {out} |")
