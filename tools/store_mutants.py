#!/usr/bin/env python3
"""tools/store_mutants.py <dir with m<id>/{patch.diff,info.txt}> — store mechanically generated single-token
mutants that SURVIVE the repository's own tests as mutants/m<id>/{patch.diff, info.txt, meta.json}.
`checks` = the properties that speak about the mutated FUNCTION (file + enclosing fn), most relevant first;
tools/run_seeded.py stops at the first check that catches a mutant (meta `stop_first`)."""
import glob, json, os, re, shutil, subprocess, sys
HERE = os.path.dirname(os.path.abspath(__file__))
ROOT = os.path.dirname(HERE)
sys.path.insert(0, HERE)
from props import PROPS
REPO = os.environ.get("LMV_REPO", "/repo")

RULES = [  # (file regex, enclosing-fn regex, checks)
    (r"platform/(avx2|sse2)\.rs$", r"encode", ["C05", "C06"]),
    (r"platform/(avx2|sse2)\.rs$", r"stripe", ["C04", "C06"]),
    (r"platform/(avx2|sse2)\.rs$", r"score_u8", ["C08", "C01", "C02", "C06"]),
    (r"platform/(avx2|sse2)\.rs$", r"score", ["C01", "C06"]),
    (r"platform/(avx2|sse2)\.rs$", r"max", ["C07", "C02", "C03", "C06"]),
    (r"pli/mod\.rs$", r"encode", ["C05"]),
    (r"pli/mod\.rs$", r"stripe", ["C04"]),
    (r"pli/mod\.rs$", r"score", ["C01", "C08"]),
    (r"pli/mod\.rs$", r"max|threshold", ["C07", "C02", "C03"]),
    (r"pli/dispatch\.rs$", r"", ["C01", "C07", "C05", "C04"]),
    (r"src/seq\.rs$", r"", ["C04", "C05", "C18", "C01"]),
    (r"src/dense\.rs$", r"", ["C19", "C07", "C04"]),
    (r"src/scores\.rs$", r"", ["C01", "C07", "C18"]),
    (r"src/scan\.rs$", r"", ["C02", "C03"]),
    (r"src/sampler\.rs$", r"", ["C16"]),
    (r"pwm/dist\.rs$", r"", ["C11", "C17"]),
    (r"pwm/mod\.rs$", r"discrete|Discrete|^scale$|^unscale$", ["C08", "C02", "C03"]),
    (r"pwm/mod\.rs$", r"reverse_complement", ["C10", "C09"]),
    (r"pwm/mod\.rs$", r"", ["C09", "C10", "C08", "C01"]),
    (r"src/abc\.rs$", r"", ["C05", "C09", "C10"]),
    (r"lightmotif-tfmpvalue/", r"", ["C12", "C13"]),
    (r"lightmotif-io/", r"", ["C14", "C15"]),
    (r"lightmotif-py/lightmotif/lib\.rs$", r"", ["C17", "C18"]),
    (r"lightmotif-py/", r"", ["C17"]),
]


def enclosing_fn(path, line):
    try:
        src = open(os.path.join(REPO, path)).read().split("\n")
    except OSError:
        return ""
    for i in range(min(line, len(src)) - 1, -1, -1):
        m = re.match(r"\s*(?:pub(?:\([^)]*\))?\s+)?(?:unsafe\s+)?(?:const\s+)?fn\s+(\w+)", src[i])
        if m:
            return m.group(1)
    return ""


for d in sorted(glob.glob(os.path.join(sys.argv[1], "m*"))):
    mid = os.path.basename(d)
    info = open(os.path.join(d, "info.txt")).read()
    m = re.search(r"location:\s*(\S+):(\d+)", info)
    path, line = m.group(1), int(m.group(2))
    fn = enclosing_fn(path, line)
    checks = None
    for fr, nr, cs in RULES:
        if re.search(fr, path) and re.search(nr, fn):
            checks = cs
            break
    if checks is None:
        checks = sorted(p for p, c in PROPS.items() if path in c.get("files", []))
    dst = os.path.join(ROOT, "mutants", mid)
    os.makedirs(dst, exist_ok=True)
    shutil.copy(os.path.join(d, "patch.diff"), dst)
    shutil.copy(os.path.join(d, "info.txt"), dst)
    json.dump({"id": mid, "property": checks[0], "mechanical": True, "stop_first": True,
               "source": "mechanical single-token mutant surviving the repository's test suite (an independent sub-agent's generator; 457 sampled sites, 210 survivors)",
               "needs_to_manifest": info, "file": path, "line": line, "fn": fn, "checks": checks},
              open(os.path.join(dst, "meta.json"), "w"), indent=1)
    print(mid, path.split("/")[-1], fn, checks)
