#!/usr/bin/env python3
"""summary of the mechanical mutants (mutants/*/meta.json + mutants/TRIAGE.json)"""
import json, glob, os, collections
ROOT = os.path.dirname(os.path.dirname(os.path.abspath(__file__)))
tri = json.load(open(os.path.join(ROOT, "mutants", "TRIAGE.json")))
tot = collections.Counter(); byfile = collections.defaultdict(collections.Counter); rows = []
for f in sorted(glob.glob(os.path.join(ROOT, "mutants/m*/meta.json")), key=lambda x: int(os.path.basename(os.path.dirname(x))[1:])):
    m = json.load(open(f)); lr = m.get("last_run") or {}
    res = lr.get("results", {})
    if not lr.get("applied"):
        out = "not-run"
    elif lr.get("caught"):
        v = [r for r in res.values() if r["exit"] == 1][0]
        out = "caught (no-failing-input-found)" if "no-failing-input-found" in (v.get("violation_lines") or [""])[0] else "caught (failing input)"
    else:
        out = "not caught"
    t = tri.get(m["id"])
    if t and out == "not caught":
        out = "not caught: " + t[0]
    elif t and t[0] == "missed-then-caught":
        out = "missed at first, caught after strengthening"
    tot[out] += 1; byfile[m["file"].split("/")[-1]][out.split(":")[0].split(" (")[0]] += 1
    if t:
        rows.append((m["id"], m["file"].split("/")[-1] + "::" + m["fn"], t[0], t[1]))
print("| outcome | mutants |\n|---|---|")
for k, v in sorted(tot.items(), key=lambda x: -x[1]):
    print(f"| {k} | {v} |")
print(f"| total | {sum(tot.values())} |\n")
print("| mutant | where | verdict | why |\n|---|---|---|---|")
for r in rows:
    print("| " + " | ".join(r) + " |")
